package main

// Package initialisation state, immutable / partially mutable globals, global invariants.
//
//   //@ immutable g1 g2 ...          values reachable from these package-level variables are
//                                    exactly what package init left there (checked: no write outside init)
//   //@ mutable g depth=1 keys>=128  maps at pointer depth 1 below g may be updated (MapUpdate) at keys >= 128
//   //@ ginv name: expr              global invariant, assumed at entry and proved at exit of
//                                    functions that say `uses name`; proved for the state left by init

import (
	"fmt"
	"go/types"
	"sort"
	"strconv"
	"strings"

	"golang.org/x/tools/go/ssa"
)

const initRegionBase = -500000

type MutableDecl struct {
	Global  string
	Depth   int
	KeysGE  int64
	pkgPath string
}

type GInv struct {
	Name    string
	Clause  Clause
	pkgPath string
}

type pkgInit struct {
	st       *State
	failed   []string
	mapRegs  map[int64]bool  // regions that are maps allocated by init
	mutMaps  map[int64]int64 // partially mutable map regions -> first mutable key
	filtered *State
	funcIDs  bool
}

func (e *Engine) funcID(fn *ssa.Function) *Term {
	if id, ok := e.fnIDs[fn]; ok {
		return BVc(id, 64)
	}
	// stable id from the name
	s := fn.String()
	h := uint64(1469598103934665603)
	for i := 0; i < len(s); i++ {
		h ^= uint64(s[i])
		h *= 1099511628211
	}
	id := int64(h&0x3fffffffffff) | 1
	for {
		if _, clash := e.fnByID[id]; !clash {
			break
		}
		id += 2
	}
	e.fnIDs[fn] = id
	e.fnByID[id] = fn
	return BVc(id, 64)
}

// runInit executes the package initialiser of a module package symbolically.
func (e *Engine) runInit(pkgPath string) *pkgInit {
	if pi, ok := e.inits[pkgPath]; ok {
		return pi
	}
	pi := &pkgInit{mapRegs: map[int64]bool{}, mutMaps: map[int64]int64{}}
	e.inits[pkgPath] = pi
	p := e.ssaPkgs[pkgPath]
	if p == nil {
		pi.failed = append(pi.failed, "no such package "+pkgPath)
		return pi
	}
	initFn := p.Func("init")
	st := newState()
	*st.nextRg = initRegionBase + int64(len(e.inits))*20000
	ex := &Exec{eng: e, root: initFn, rootName: shortFn(initFn), maxSteps: 5000000, maxPaths: 4, inlined: map[string]bool{}, usedCtr: map[string]bool{},
		intrUsed: map[string]bool{}, trivialNames: map[string]string{}, clauseProps: map[string][]string{}, ordinals: map[ssa.Instruction]string{}, maxForks: 50, noMerge: true, initMode: true}
	ex.entry = st
	ex.deadline = deadlineIn(60)
	if g, ok := p.Members["init$guard"].(*ssa.Global); ok {
		st.storeScalar(SBool, e.globalAddr(g), False)
	}
	var final *State
	func() {
		defer func() {
			if r := recover(); r != nil {
				switch a := r.(type) {
				case abortAll:
					pi.failed = append(pi.failed, a.reason)
				case abortPath:
					pi.failed = append(pi.failed, a.reason)
				default:
					panic(r)
				}
			}
		}()
		fr := &Frame{fn: initFn, regs: map[ssa.Value]Value{}, depth: 0, retK: func(st2 *State, results []Value) {
			if final != nil {
				pi.failed = append(pi.failed, "package init has more than one path")
			}
			final = st2
		}}
		ex.runBlock(fr, initFn.Blocks[0], nil, st, map[*ssa.BasicBlock]int{})
	}()
	pi.failed = append(pi.failed, ex.failed...)
	if final == nil {
		pi.failed = append(pi.failed, "package init did not reach its return")
		final = st
	}
	pi.st = final
	for id := range final.mapKeys {
		pi.mapRegs[id] = true
	}
	for id := range ex.initMaps {
		pi.mapRegs[id] = true
	}
	return pi
}

// reachable regions from a global cell at a given pointer depth (0 = object the global points to).
func (e *Engine) regionsAtDepth(st *State, g *ssa.Global, depth int) []int64 {
	cur := map[int64]bool{e.globals[g]: true}
	arr := st.mem.arrs[SAddr]
	for d := 0; d <= depth; d++ {
		next := map[int64]bool{}
		for a := arr; a != nil && a.Op == "store"; a = a.Args[0] {
			addr, val := a.Args[1], a.Args[2]
			if addr.Op == "mkaddr" && addr.Args[0].IsConst() && cur[addr.Args[0].Val.Int64()] {
				r := Rg(val)
				if r.IsConst() && r.Val.Sign() != 0 {
					next[r.Val.Int64()] = true
				}
			}
		}
		cur = next
	}
	var out []int64
	for r := range cur {
		out = append(out, r)
	}
	sort.Slice(out, func(i, j int) bool { return out[i] < out[j] })
	return out
}

// rootElemKey: the constant key k if path is (..(elem pnil k)..), else nil.
func rootElemKey(path *Term) *Term {
	for path.Op == "fld" || path.Op == "elem" {
		if path.Op == "elem" && path.Args[0].Op == "pnil" {
			return path.Args[1]
		}
		path = path.Args[0]
	}
	return nil
}

// entryStateFor: the state a function of package pkgPath starts in: what init left,
// minus the parts declared mutable, plus "absent keys are absent" axioms for init's maps.
func (e *Engine) entryStateFor(pkgPath string) (*State, []string) {
	pi := e.runInit(pkgPath)
	if pi.filtered != nil {
		return pi.filtered.Clone(), pi.failed
	}
	st := pi.st.Clone()
	// keep only what is reachable from globals declared immutable / mutable: anything else
	// may have been changed since init by code we do not look at here
	keep := map[int64]bool{}
	var roots []*ssa.Global
	for _, d := range e.cf.Immutables {
		if d.pkgPath == pkgPath {
			if g := e.globalByName(pkgPath, d.Global); g != nil {
				roots = append(roots, g)
			} else {
				pi.failed = append(pi.failed, "immutable: unknown global "+d.Global)
			}
		}
	}
	for _, d := range e.cf.Mutables {
		if d.pkgPath == pkgPath {
			if g := e.globalByName(pkgPath, d.Global); g != nil {
				roots = append(roots, g)
			}
		}
	}
	for _, g := range roots {
		keep[e.globals[g]] = true
	}
	for changed := true; changed; {
		changed = false
		for a := pi.st.mem.arrs[SAddr]; a != nil && a.Op == "store"; a = a.Args[0] {
			addr, val := a.Args[1], a.Args[2]
			if addr.Op == "mkaddr" && addr.Args[0].IsConst() && keep[addr.Args[0].Val.Int64()] {
				if r := Rg(val); r.IsConst() && r.Val.Sign() != 0 && !keep[r.Val.Int64()] {
					keep[r.Val.Int64()] = true
					changed = true
				}
			}
		}
	}
	for srt, arr := range st.mem.arrs {
		st.mem.arrs[srt] = keepStores(arr, keep)
	}
	for r := range pi.mapRegs {
		if !keep[r] {
			delete(pi.mapRegs, r)
		}
	}
	for r := range st.mapKeys {
		if !keep[r] {
			delete(st.mapKeys, r)
		}
	}
	st.assumes = nil
	// partially mutable maps
	for _, md := range e.cf.Mutables {
		if md.pkgPath != pkgPath {
			continue
		}
		g := e.globalByName(pkgPath, md.Global)
		if g == nil {
			pi.failed = append(pi.failed, "mutable: unknown global "+md.Global)
			continue
		}
		for _, r := range e.regionsAtDepth(pi.st, g, md.Depth) {
			pi.mutMaps[r] = md.KeysGE
		}
	}
	if len(pi.mutMaps) > 0 {
		for srt, arr := range st.mem.arrs {
			st.mem.arrs[srt] = filterStores(arr, pi.mutMaps)
		}
	}
	for r := range pi.mutMaps {
		st.markOpaque(r)
	}
	for _, ax := range e.absentAxioms(pi, st, true) {
		st.Assume(ax)
	}
	pi.filtered = st
	return st.Clone(), pi.failed
}

func filterStores(arr *Term, mut map[int64]int64) *Term {
	if arr.Op != "store" {
		return arr
	}
	inner := filterStores(arr.Args[0], mut)
	addr := arr.Args[1]
	if addr.Op == "mkaddr" && addr.Args[0].IsConst() {
		if lim, ok := mut[addr.Args[0].Val.Int64()]; ok {
			k := rootElemKey(addr.Args[1])
			if k == nil {
				// map header (len): unknown after mutations
				return inner
			}
			if !k.IsConst() || k.Val.Cmp(bigInt(lim)) >= 0 {
				return inner
			}
		}
	}
	if inner == arr.Args[0] {
		return arr
	}
	return Store(inner, addr, arr.Args[2])
}

func (e *Engine) globalByName(pkgPath, name string) *ssa.Global {
	p := e.ssaPkgs[pkgPath]
	if p == nil {
		return nil
	}
	g, _ := p.Members[name].(*ssa.Global)
	return g
}

// checkGlobalWrites: scans all non-init functions of the package for writes to immutable
// globals (or to mutable ones outside the declared shape). Returns violations.
func (e *Engine) checkGlobalWrites(pkgPath string) []string {
	p := e.ssaPkgs[pkgPath]
	if p == nil {
		return nil
	}
	imm := map[*ssa.Global]bool{}
	mut := map[*ssa.Global]*MutableDecl{}
	for _, d := range e.cf.Immutables {
		if d.pkgPath == pkgPath {
			if g := e.globalByName(pkgPath, d.Global); g != nil {
				imm[g] = true
			}
		}
	}
	for i := range e.cf.Mutables {
		d := &e.cf.Mutables[i]
		if d.pkgPath == pkgPath {
			if g := e.globalByName(pkgPath, d.Global); g != nil {
				mut[g] = d
			}
		}
	}
	// origin(v): (global, depth) if v is derived from a load of a global through lookups/indexing
	var origin func(v ssa.Value, fuel int) (*ssa.Global, int)
	origin = func(v ssa.Value, fuel int) (*ssa.Global, int) {
		if fuel == 0 {
			return nil, 0
		}
		switch x := v.(type) {
		case *ssa.Global:
			return x, -1
		case *ssa.UnOp:
			g, d := origin(x.X, fuel-1)
			if g != nil {
				return g, d + 1
			}
		case *ssa.Lookup:
			g, d := origin(x.X, fuel-1)
			if g != nil {
				return g, d + 1
			}
		case *ssa.Extract:
			return origin(x.Tuple, fuel-1)
		case *ssa.IndexAddr:
			g, d := origin(x.X, fuel-1)
			return g, d
		case *ssa.FieldAddr:
			g, d := origin(x.X, fuel-1)
			return g, d
		case *ssa.Field:
			return origin(x.X, fuel-1)
		case *ssa.Index:
			return origin(x.X, fuel-1)
		case *ssa.Slice:
			return origin(x.X, fuel-1)
		case *ssa.Phi:
			for _, ed := range x.Edges {
				if g, d := origin(ed, fuel-1); g != nil {
					return g, d
				}
			}
		}
		return nil, 0
	}
	var out []string
	for _, fn := range e.allFuncs {
		if fn.Pkg != p || fn.Blocks == nil || fn.Name() == "init" || strings.HasPrefix(fn.Name(), "init#") {
			continue
		}
		for _, b := range fn.Blocks {
			for _, in := range b.Instrs {
				var target ssa.Value
				isMapUpd := false
				switch x := in.(type) {
				case *ssa.Store:
					target = x.Addr
				case *ssa.MapUpdate:
					target = x.Map
					isMapUpd = true
				default:
					continue
				}
				g, d := origin(target, 12)
				if g == nil {
					continue
				}
				if imm[g] {
					out = append(out, fmt.Sprintf("%s writes immutable global %s", shortFn(fn), g.Name()))
				}
				if md, ok := mut[g]; ok {
					if !(isMapUpd && d == md.Depth+0) {
						out = append(out, fmt.Sprintf("%s writes %s outside its declared mutable part (depth %d)", shortFn(fn), g.Name(), d))
					}
				}
			}
		}
	}
	sort.Strings(out)
	return out
}

func parseMutableDecl(rest string) (MutableDecl, error) {
	f := strings.Fields(rest)
	if len(f) == 0 {
		return MutableDecl{}, fmt.Errorf("empty mutable declaration")
	}
	d := MutableDecl{Global: f[0]}
	for _, x := range f[1:] {
		switch {
		case strings.HasPrefix(x, "depth="):
			d.Depth, _ = strconv.Atoi(strings.TrimPrefix(x, "depth="))
		case strings.HasPrefix(x, "keys>="):
			n, _ := strconv.ParseInt(strings.TrimPrefix(x, "keys>="), 0, 64)
			d.KeysGE = n
		}
	}
	return d, nil
}

var _ = types.Typ

func keepStores(arr *Term, keep map[int64]bool) *Term {
	if arr.Op != "store" {
		return arr
	}
	inner := keepStores(arr.Args[0], keep)
	addr := arr.Args[1]
	if addr.Op == "mkaddr" && addr.Args[0].IsConst() && keep[addr.Args[0].Val.Int64()] {
		if inner == arr.Args[0] {
			return arr
		}
		return Store(inner, addr, arr.Args[2])
	}
	return inner
}

// absent keys of init's maps are absent: forall k [k < bound]. not present(R, k) in the initial array
func (e *Engine) absentAxioms(pi *pkgInit, st *State, limited bool) []*Term {
	mb := st.mem.arr(SBool, st.memGen)
	base := mb
	for base.Op == "store" {
		base = base.Args[0]
	}
	var regs []int64
	for r := range pi.mapRegs {
		regs = append(regs, r)
	}
	sort.Slice(regs, func(i, j int) bool { return regs[i] < regs[j] })
	var out []*Term
	for _, r := range regs {
		k := BoundVar(fmt.Sprintf("k$%d", -r), BV(64))
		_, pa := mapEntry(MkAddr(IntConst(r), PNil), k)
		body := Not(mk("select", SBool, base, pa))
		if lim, mut := pi.mutMaps[r]; mut && limited {
			body = Implies(BVCmp("bvult", k, BVc(lim, 64)), body)
		}
		ax := Forall([]*Term{k}, body)
		axiomRegion[ax.id] = r
		out = append(out, ax)
	}
	return out
}

// axiomRegion: "absent keys are absent" axioms, by term id -> map region they talk about.
// Such an axiom is only relevant to an obligation that mentions the region elsewhere.
var axiomRegion = map[int]int64{}

func relevantAssumes(o *Obligation) []*Term {
	if o.Cone {
		o2 := *o
		o2.Cone = false
		return coneFilter(relevantAssumes(&o2), o.Goal)
	}
	if o.Approx {
		// quantifier-free approximation (candidate counterexamples only): quantified assumptions dropped
		var qf []*Term
		for _, a := range o.Assumes {
			if !hasQuant([]*Term{a}) {
				qf = append(qf, a)
			}
		}
		o2 := *o
		o2.Approx = false
		o2.Assumes = qf
		return relevantAssumes(&o2)
	}
	hasAx := false
	for _, a := range o.Assumes {
		if _, ok := axiomRegion[a.id]; ok {
			hasAx = true
			break
		}
	}
	if !hasAx {
		return o.Assumes
	}
	used := map[int64]bool{}
	seen := map[int]bool{}
	var walk func(t *Term)
	walk = func(t *Term) {
		if seen[t.id] {
			return
		}
		seen[t.id] = true
		if t.Op == "const" && t.Sort == SInt && t.Val.IsInt64() {
			used[t.Val.Int64()] = true
		}
		for _, a := range t.Args {
			walk(a)
		}
	}
	for _, a := range o.Assumes {
		if _, ok := axiomRegion[a.id]; !ok {
			walk(a)
		}
	}
	walk(o.Goal)
	var out []*Term
	for _, a := range o.Assumes {
		if r, ok := axiomRegion[a.id]; ok && !used[r] {
			continue
		}
		out = append(out, a)
	}
	return out
}

// coneFilter: the assumptions connected to the goal through shared variables (initial memory arrays
// excepted).  Dropping assumptions is sound; it is only a first, cheap attempt: an obligation that is
// not proved from its cone is tried again with all assumptions (the path may be infeasible for
// unrelated reasons).
func coneFilter(assumes []*Term, goal *Term) []*Term {
	varsOf := func(t *Term) map[int]bool {
		m := map[int]bool{}
		seen := map[int]bool{}
		var rec func(t *Term)
		rec = func(t *Term) {
			if seen[t.id] {
				return
			}
			seen[t.id] = true
			if t.Op == "var" {
				if t.Sort.IsArray() && strings.HasSuffix(t.Name, "@0") {
					return
				}
				m[t.id] = true
				return
			}
			for _, a := range t.Args {
				rec(a)
			}
		}
		rec(t)
		return m
	}
	cone := varsOf(goal)
	if len(cone) == 0 {
		return assumes
	}
	avars := make([]map[int]bool, len(assumes))
	for i, a := range assumes {
		avars[i] = varsOf(a)
	}
	in := make([]bool, len(assumes))
	for changed := true; changed; {
		changed = false
		for i := range assumes {
			if in[i] {
				continue
			}
			hit := len(avars[i]) == 0
			for v := range avars[i] {
				if cone[v] {
					hit = true
					break
				}
			}
			if hit {
				in[i] = true
				changed = true
				for v := range avars[i] {
					cone[v] = true
				}
			}
		}
	}
	var out []*Term
	for i, a := range assumes {
		if in[i] {
			out = append(out, a)
		}
	}
	return out
}
