package main

// Floating point terms (exact SMT FloatingPoint theory, RNE).

import (
	"fmt"
	"math"
	"math/big"
)

// FPConstBits builds an FP literal from IEEE bits.
func FPConstBits(bits uint64, w int) *Term {
	if w == 64 {
		return intern(&Term{Op: "fpconst", Sort: SF64, Val: new(big.Int).SetUint64(bits)})
	}
	return intern(&Term{Op: "fpconst", Sort: SF32, Val: new(big.Int).SetUint64(bits & 0xffffffff)})
}

func FPConst64(f float64) *Term { return FPConstBits(math.Float64bits(f), 64) }
func FPConst32(f float32) *Term { return FPConstBits(uint64(math.Float32bits(f)), 32) }

func fpConstSMT(t *Term) string {
	if t.Sort == SF64 {
		b := t.Val.Uint64()
		return fmt.Sprintf("(fp #b%01b #b%011b #x%013x)", b>>63, (b>>52)&0x7ff, b&((1<<52)-1))
	}
	b := t.Val.Uint64()
	return fmt.Sprintf("(fp #b%01b #b%08b #b%023b)", b>>31, (b>>23)&0xff, b&((1<<23)-1))
}

func FPEq(a, b *Term) *Term {
	if a.Op == "fpconst" && b.Op == "fpconst" {
		if a.Sort == SF64 {
			return BoolConst(math.Float64frombits(a.Val.Uint64()) == math.Float64frombits(b.Val.Uint64()))
		}
		return BoolConst(math.Float32frombits(uint32(a.Val.Uint64())) == math.Float32frombits(uint32(b.Val.Uint64())))
	}
	return mk("fp.eq", SBool, a, b)
}

var rne = mk("RNE", Sort("RoundingMode"))
var rtz = mk("RTZ", Sort("RoundingMode"))

func FPBin(op string, a, b *Term) *Term {
	// op: fp.add fp.sub fp.mul fp.div
	if a.Op == "fpconst" && b.Op == "fpconst" && a.Sort == SF64 {
		x, y := math.Float64frombits(a.Val.Uint64()), math.Float64frombits(b.Val.Uint64())
		switch op {
		case "fp.add":
			return FPConst64(x + y)
		case "fp.sub":
			return FPConst64(x - y)
		case "fp.mul":
			return FPConst64(x * y)
		case "fp.div":
			return FPConst64(x / y)
		}
	}
	return mk(op, a.Sort, rne, a, b)
}

func FPCmp(op string, a, b *Term) *Term {
	// op: fp.lt fp.leq fp.gt fp.geq
	if a.Op == "fpconst" && b.Op == "fpconst" {
		var x, y float64
		if a.Sort == SF64 {
			x, y = math.Float64frombits(a.Val.Uint64()), math.Float64frombits(b.Val.Uint64())
		} else {
			x, y = float64(math.Float32frombits(uint32(a.Val.Uint64()))), float64(math.Float32frombits(uint32(b.Val.Uint64())))
		}
		switch op {
		case "fp.lt":
			return BoolConst(x < y)
		case "fp.leq":
			return BoolConst(x <= y)
		case "fp.gt":
			return BoolConst(x > y)
		case "fp.geq":
			return BoolConst(x >= y)
		}
	}
	return mk(op, SBool, a, b)
}

func FPNeg(a *Term) *Term { return mk("fp.neg", a.Sort, a) }

// int -> float (signed or unsigned source)
func FPFromInt(a *Term, signed bool, to Sort) *Term {
	eb, sb := 11, 53
	if to == SF32 {
		eb, sb = 8, 24
	}
	if a.IsConst() {
		var v *big.Int
		if signed {
			v = a.Signed()
		} else {
			v = a.Val
		}
		f, _ := new(big.Float).SetInt(v).Float64()
		if to == SF64 {
			return FPConst64(f)
		}
		return FPConst32(float32(f))
	}
	name := fmt.Sprintf("(_ to_fp %d %d)", eb, sb)
	if !signed {
		name = fmt.Sprintf("(_ to_fp_unsigned %d %d)", eb, sb)
	}
	return mkN("fpfromint", name, to, rne, a)
}

// float -> int: Go truncates toward zero; behaviour for out-of-range values is
// implementation-defined (we leave it unspecified, as SMT does).
func FPToInt(a *Term, signed bool, w int) *Term {
	name := fmt.Sprintf("(_ fp.to_sbv %d)", w)
	if !signed {
		name = fmt.Sprintf("(_ fp.to_ubv %d)", w)
	}
	return mkN("fptoint", name, BV(w), rtz, a)
}

func FPToFP(a *Term, to Sort) *Term {
	if a.Sort == to {
		return a
	}
	eb, sb := 11, 53
	if to == SF32 {
		eb, sb = 8, 24
	}
	if a.Op == "fpconst" {
		if to == SF64 {
			return FPConst64(float64(math.Float32frombits(uint32(a.Val.Uint64()))))
		}
		return FPConst32(float32(math.Float64frombits(a.Val.Uint64())))
	}
	return mkN("fptofp", fmt.Sprintf("(_ to_fp %d %d)", eb, sb), to, rne, a)
}
