package main

// Symbolic executor over go/ssa: path-wise DFS with constant folding,
// callee contracts / inlining, safety obligations.

import (
	"fmt"
	"go/ast"
	"go/constant"
	"go/token"
	"go/types"
	"math/big"
	"os"
	"sort"
	"strings"
	"time"

	"golang.org/x/tools/go/ssa"
)

type Obligation struct {
	Name    string // <func>#<label>
	Func    string
	Label   string
	Kind    string // safe | post | pre | inv | assert | frame | limit
	Assumes []*Term
	Goal    *Term
	Where   string // source position / text (informational)
	Path    int
	// model extraction support
	Inputs  []NamedVal
	Props   []string // clause-level properties (nil: function-level)
	ex      *Exec
	Foreign [][2]int64 // see State.foreign
	Cone    bool       // scripts keep only the assumptions connected to the goal (first, cheap attempt)
	Approx  bool       // scripts drop quantified assumptions and axioms (candidate models for replay only)
}

type NamedVal struct {
	Name string
	Type types.Type
	V    Value
}

type abortPath struct{ reason string }
type abortAll struct{ reason string }

type Frame struct {
	fn      *ssa.Function
	regs    map[ssa.Value]Value
	defers  []deferred
	depth   int
	retK    func(st *State, results []Value)
	entrySt *State // state at function entry (for old() in callee contract check — only root)
	callStr string
	stopAt  *ssa.BasicBlock
	stopK   func(st *State, fr *Frame, prev *ssa.BasicBlock)
	names   map[string]nameRef           // source-level names (from DebugRef) -> current value
	loops   map[*ssa.BasicBlock]*loopCtx // active loop cut points on this path
}

type nameRef struct {
	v      ssa.Value
	isAddr bool
}

type loopCtx struct {
	li       *loopInfo
	measure  *Term // value of the decreases expression at the head
	headSt   *State
	iterSt   *State // state at the head of the iteration (after havoc, invariant assumed); step clauses
	iterVars map[string]TV
	dropped  []*Term // quantified facts from before the loop, restored when the loop is left
	body     map[*ssa.BasicBlock]bool
	exited   bool
	outerFC  func(ex *Exec, st *State, in ssa.Instruction, a *Term)
	outerFR  func(ex *Exec, st *State, in ssa.Instruction, dst *SliceV, n *Term)
}

type deferred struct {
	call *ssa.CallCommon
	args []Value
	fnv  Value
}

func (fr *Frame) fork() *Frame {
	n := *fr
	n.regs = make(map[ssa.Value]Value, len(fr.regs)+8)
	for k, v := range fr.regs {
		n.regs[k] = v
	}
	n.defers = append([]deferred{}, fr.defers...)
	if fr.names != nil {
		n.names = make(map[string]nameRef, len(fr.names))
		for k, v := range fr.names {
			n.names[k] = v
		}
	}
	if fr.loops != nil {
		n.loops = make(map[*ssa.BasicBlock]*loopCtx, len(fr.loops))
		for k, v := range fr.loops {
			n.loops[k] = v
		}
	}
	return &n
}

type Exec struct {
	pruneCalls, prunePruned int
	vacChecks               map[string]int
	pruneNs                 float64 // time spent in solver-based pruning (budget per function)
	eng                     *Engine
	root                    *ssa.Function
	rootName                string
	obls                    []*Obligation
	steps                   int
	maxSteps                int
	paths                   int
	inlined                 map[string]bool
	usedCtr                 map[string]bool // contracts used at call sites
	intrUsed                map[string]bool
	trivial                 int // safety checks discharged by the simplifier
	trivialNames            map[string]string
	clauseProps             map[string][]string
	ordinals                map[ssa.Instruction]string
	failed                  []string // tool-limit / unsupported reasons
	inputs                  []NamedVal
	// per-path loop iteration counters (symbolic forks at a header)
	maxForks   int
	maxPaths   int
	merges     int
	noMerge    bool
	initMode   bool
	initMaps   map[int64]bool
	allowPanic bool
	entry      *State        // state at entry of the root function (old())
	rootVars   map[string]TV // ghost/let bindings of the root contract
	deadline   time.Time
}

func (ex *Exec) fail(reason string) {
	ex.failed = append(ex.failed, reason)
}

// label for an instruction: "<kind>:<fn short>:<n>" — n-th instruction of that
// kind within its function in block order; no line numbers, no register names.
func (ex *Exec) instrLabel(kind string, in ssa.Instruction) string {
	if strings.HasPrefix(kind, "safe:") || kind == "frame" || strings.HasPrefix(kind, "pre:") {
		// edit-stable: one obligation per (kind, function containing the instruction)
		return kind + "@" + shortFn(in.Parent())
	}
	if l, ok := ex.ordinals[in]; ok {
		return kind + ":" + l
	}
	fn := in.Parent()
	counts := map[string]int{}
	for _, b := range fn.Blocks {
		for _, i2 := range b.Instrs {
			k := fmt.Sprintf("%T", i2)
			counts[k]++
			ex.ordinals[i2] = fmt.Sprintf("%s:%s%d", shortFn(fn), strings.TrimPrefix(k, "*ssa."), counts[k])
		}
	}
	return kind + ":" + ex.ordinals[in]
}

func shortFn(fn *ssa.Function) string {
	s := fn.String()
	s = strings.ReplaceAll(s, "github.com/brocaar/lorawan/", "")
	s = strings.ReplaceAll(s, "github.com/brocaar/lorawan.", "")
	s = strings.ReplaceAll(s, "github.com/brocaar/", "")
	return s
}

func (ex *Exec) addObl(st *State, kind, label string, goal *Term, where string) {
	goal = Subst(goal, st.substMap())
	if goal.IsTrue() {
		ex.trivial++
		ex.trivialNames[ex.rootName+"#"+label] = kind
		return
	}
	o := &Obligation{
		Name: ex.rootName + "#" + label, Func: ex.rootName, Label: label, Kind: kind,
		Assumes: append([]*Term{}, st.assumes...), Goal: goal, Where: where, Path: ex.paths,
		Inputs: ex.inputs, ex: ex, Foreign: append([][2]int64{}, st.foreign...),
	}
	ex.obls = append(ex.obls, o)
}

func (ex *Exec) pos(in ssa.Instruction) string {
	p := ex.eng.prog.Fset.Position(in.Pos())
	if !p.IsValid() {
		return in.Parent().String()
	}
	return fmt.Sprintf("%s:%d", p.Filename, p.Line)
}

// safety check: records obligation and then assumes the condition (execution
// continues only on the non-panicking side).
func (ex *Exec) safe(st *State, in ssa.Instruction, what string, ok *Term) {
	ok = Subst(ok, st.substMap())
	if ex.allowPanic {
		// the contract of this function does not claim panic-freedom: continue on the non-panicking side
		if ok.IsFalse() {
			panic(abortPath{"definite panic: " + what})
		}
		st.Assume(ok)
		return
	}
	if ok.IsTrue() {
		ex.trivial++
		ex.trivialNames[ex.rootName+"#"+ex.instrLabel("safe:"+what, in)] = "safe"
		return
	}
	ex.addObl(st, "safe", ex.instrLabel("safe:"+what, in), ok, ex.pos(in))
	if ok.IsFalse() {
		panic(abortPath{"definite panic: " + what})
	}
	st.Assume(ok)
}

// ---------- state helpers ----------

func (st *State) substMap() map[*Term]*Term { return st.subst }

// AssumeCond adds a branch condition, recording var==const equalities for substitution.
func (st *State) AssumeCond(c *Term) {
	st.Assume(c)
	st.learn(c)
	// implications assumed earlier (callee postconditions "err == nil ==> ...") whose antecedent
	// is now known: learn their consequents too (constant lengths etc.)
	if c.Op == "=" || c.Op == "var" || c.Op == "not" {
		lo := len(st.assumes) - 120
		if lo < 0 {
			lo = 0
		}
		for _, a := range st.assumes[lo:] {
			if a.Op == "=>" && !a.bound {
				if ant := Subst(a.Args[0], st.substMap()); ant.IsTrue() {
					st.learn(a.Args[1])
				}
			}
		}
	}
}

func (st *State) learn(c *Term) {
	switch c.Op {
	case "and":
		for _, a := range c.Args {
			st.learn(a)
		}
	case "=":
		a, b := c.Args[0], c.Args[1]
		if b.IsConst() && !a.IsConst() {
			st.addSubst(a, b)
		} else if a.IsConst() && !b.IsConst() {
			st.addSubst(b, a)
		} else if a.Op == "var" && b.Op == "var" && !a.bound && !b.bound {
			// two names for one value: keep the older one
			if a.id > b.id {
				st.addSubst(a, b)
			} else {
				st.addSubst(b, a)
			}
		} else if a.Op == "select" && b.Op != "select" && !a.bound && !b.bound && a.Sort.IsBV() {
			// memory cell known to hold a value expressed without memory: rewrite the cell
			st.addSubst(a, b)
		} else if b.Op == "select" && a.Op != "select" && !a.bound && !b.bound && b.Sort.IsBV() {
			st.addSubst(b, a)
		} else if !c.bound {
			st.addSubst(c, True)
		}
	case "var":
		if c.Sort == SBool {
			st.addSubst(c, True)
		}
	case "not":
		// the same condition evaluated again later on this path is known to be false
		if !c.Args[0].bound && c.Args[0].Op != "and" && c.Args[0].Op != "or" {
			st.addSubst(c.Args[0], False)
		}
		if c.Args[0].Op == "or" {
			for _, a := range c.Args[0].Args {
				st.learn(Not(a))
			}
		}
	case "bvult", "bvule", "bvslt", "bvsle":
		if !c.bound {
			st.addSubst(c, True)
		}
	case "select", "app":
		if c.Sort == SBool {
			st.addSubst(c, True)
		}
	}
}

func (st *State) addSubst(a, b *Term) {
	n := make(map[*Term]*Term, len(st.subst)+1)
	if r, ok := st.subst[b]; ok && r != a {
		b = r
	}
	for k, v := range st.subst {
		if v == a {
			v = b
		}
		n[k] = v
	}
	n[a] = b
	st.subst = n
}

// ---------- constants ----------

func (ex *Exec) constValue(c *ssa.Const) Value {
	t := c.Type()
	if c.Value == nil {
		return ZeroValue(t)
	}
	switch u := t.Underlying().(type) {
	case *types.Basic:
		switch {
		case u.Info()&types.IsBoolean != 0:
			return BoolConst(constant.BoolVal(c.Value))
		case u.Info()&types.IsInteger != 0:
			w := scalarSort(t).Width()
			bi, ok := constant.Val(constant.ToInt(c.Value)).(*big.Int)
			if !ok {
				i64, _ := constant.Int64Val(constant.ToInt(c.Value))
				bi = big.NewInt(i64)
			}
			return BVConst(bi, w)
		case u.Info()&types.IsFloat != 0:
			f, _ := constant.Float64Val(c.Value)
			if scalarSort(t) == SF32 {
				return FPConst32(float32(f))
			}
			return FPConst64(f)
		case u.Info()&types.IsString != 0:
			return ex.eng.strConst(constant.StringVal(c.Value))
		}
	}
	panic(fmt.Sprintf("constValue: unsupported const %s of type %s", c, t))
}

func (ex *Exec) get(fr *Frame, v ssa.Value) Value {
	switch x := v.(type) {
	case *ssa.Const:
		return ex.constValue(x)
	case *ssa.Global:
		return ex.eng.globalAddr(x)
	case *ssa.Function:
		return &FuncV{Fn: x, Sym: ex.eng.funcID(x)}
	case *ssa.Builtin:
		return &FuncV{Fn: x}
	}
	r, ok := fr.regs[v]
	if !ok {
		panic(fmt.Sprintf("unbound ssa value %s (%T) in %s", v.Name(), v, fr.fn))
	}
	return r
}

// ---------- running functions ----------

func (ex *Exec) runFunction(fn *ssa.Function, args []Value, st *State, depth int, retK func(st *State, results []Value)) {
	if fn.Blocks == nil {
		panic(abortPath{"no body: " + fn.String()})
	}
	if depth > 12 {
		panic(abortPath{"inline depth exceeded at " + fn.String()})
	}
	fr := &Frame{fn: fn, regs: map[ssa.Value]Value{}, depth: depth, retK: retK}
	for i, p := range fn.Params {
		fr.regs[p] = args[i]
	}
	ex.runBlock(fr, fn.Blocks[0], nil, st, map[*ssa.BasicBlock]int{})
}

func copyVisits(m map[*ssa.BasicBlock]int) map[*ssa.BasicBlock]int {
	n := make(map[*ssa.BasicBlock]int, len(m))
	for k, v := range m {
		n[k] = v
	}
	return n
}

func (ex *Exec) runBlockNoPhi(fr *Frame, b *ssa.BasicBlock, st *State, visits map[*ssa.BasicBlock]int) {
	visits[b]++
	if li := ex.eng.loopInvariantFor(fr.fn, b); li != nil && fr.depth == 0 {
		panic(abortAll{"merge into a loop head"})
	}
	ex.runInstrs(fr, b, 0, st, visits)
}

var traceOn = os.Getenv("GOV_TRACE") != ""

func (ex *Exec) runBlock(fr *Frame, b *ssa.BasicBlock, prev *ssa.BasicBlock, st *State, visits map[*ssa.BasicBlock]int) {
	if fr.stopAt == b && fr.stopK != nil {
		fr.stopK(st, fr, prev)
		return
	}
	if traceOn {
		fmt.Printf("TRACE path=%d depth=%d %s b%d (%s)\n", ex.paths, fr.depth, shortFn(fr.fn), b.Index, b.Comment)
	}
	visits[b]++
	visitLimit := 600
	if strings.HasPrefix(fr.fn.Name(), "lemma") {
		// loop-free client lemmas: the counter is shared by sibling paths that fork inside callees
		visitLimit = 200000
	}
	if visits[b] > visitLimit {
		panic(abortAll{fmt.Sprintf("block visit limit in %s (loop without invariant?)", fr.fn)})
	}
	// leaving a loop that was cut at its head: facts dropped there are valid again
	for h, ctx := range fr.loops {
		if !ctx.exited && ctx.body != nil && !ctx.body[b] {
			st.assumes = append(st.assumes, ctx.dropped...)
			st.frameCheck, st.frameCheckRange = ctx.outerFC, ctx.outerFR
			nc := *ctx
			nc.dropped = nil
			nc.exited = true
			fr.loops[h] = &nc
		}
	}
	// phis first (parallel assignment)
	ex.bindPhis(fr, b, prev)
	// loop invariant cut point?
	if li := ex.eng.loopInvariantFor(fr.fn, b); li != nil && fr.depth == 0 {
		if !ex.atLoopHead(fr, b, prev, st, visits, li) {
			return
		}
	}
	ex.runInstrs(fr, b, 0, st, visits)
}

func (ex *Exec) bindPhis(fr *Frame, b *ssa.BasicBlock, prev *ssa.BasicBlock) {
	if prev != nil {
		idx := -1
		for i, p := range b.Preds {
			if p == prev {
				idx = i
				break
			}
		}
		var vals []Value
		var phis []*ssa.Phi
		for _, in := range b.Instrs {
			phi, ok := in.(*ssa.Phi)
			if !ok {
				break
			}
			phis = append(phis, phi)
			vals = append(vals, ex.get(fr, phi.Edges[idx]))
		}
		for i, phi := range phis {
			fr.regs[phi] = vals[i]
		}
	}
}

func (ex *Exec) runInstrs(fr *Frame, b *ssa.BasicBlock, start int, st *State, visits map[*ssa.BasicBlock]int) {
	for i := start; i < len(b.Instrs); i++ {
		ex.steps++
		if ex.steps > ex.maxSteps {
			panic(abortAll{"step limit"})
		}
		if ex.steps%256 == 0 && time.Now().After(ex.deadline) {
			panic(abortAll{"symbolic execution time limit"})
		}
		in := b.Instrs[i]
		switch x := in.(type) {
		case *ssa.Phi:
			continue
		case *ssa.DebugRef:
			if id, ok := x.Expr.(*ast.Ident); ok && fr.depth == 0 {
				if fr.names == nil {
					fr.names = map[string]nameRef{}
				}
				fr.names[id.Name] = nameRef{v: x.X, isAddr: x.IsAddr}
			}
			continue
		case *ssa.If:
			c := Subst(ex.get(fr, x.Cond).(*Term), st.substMap())
			if c.IsTrue() {
				ex.runBlock(fr, b.Succs[0], b, st, visits)
				return
			}
			if c.IsFalse() {
				ex.runBlock(fr, b.Succs[1], b, st, visits)
				return
			}
			if J := ipdoms(fr.fn)[b]; J != nil && !ex.noMerge && ex.eng.loopInvariantFor(fr.fn, J) == nil {
				visits[nil]++
				if visits[nil] > ex.maxForks {
					panic(abortAll{"fork limit on one path (loop without invariant?)"})
				}
				ex.forkAndMerge(fr, b, c, J, st, visits)
				return
			}
			// symbolic fork
			forks := visits[nil] + 1
			if forks > ex.maxForks {
				panic(abortAll{"fork limit on one path (loop without invariant?)"})
			}
			if ex.paths > ex.maxPaths {
				panic(abortAll{"path limit"})
			}
			// a branch that keeps forking at the same block (unrolled loop with a symbolic
			// bound): decide feasibility with the solver so that bounded loops terminate
			feas := ex.eng.feasible
			if visits[b] > 3 {
				feas = ex.eng.feasibleSolver
			} else if ex.paths >= 4 && len(st.assumes) < 300 && !(ex.pruneCalls >= 6 && ex.prunePruned*3 < ex.pruneCalls) && (ex.pruneNs < 8e9 || ex.prunePruned*2 >= ex.pruneCalls) {
				// many paths already: decide feasibility of further branches with the solver
				// (infeasible branches are otherwise explored and discharged one by one);
				// given up for this function when it hardly ever prunes anything
				feas = func(st *State) bool {
					ex.pruneCalls++
					t0 := time.Now()
					ok := ex.eng.feasibleSolver(st)
					ex.pruneNs += float64(time.Since(t0).Nanoseconds())
					if !ok {
						ex.prunePruned++
					}
					return ok
				}
			}
			st1 := st.Clone()
			st1.AssumeCond(c)
			fr1 := fr.fork()
			v1 := copyVisits(visits)
			v1[nil] = forks
			if feas(st1) {
				ex.guard(func() { ex.runBlock(fr1, b.Succs[0], b, st1, v1) })
			}
			st2 := st
			st2.AssumeCond(Not(c))
			visits[nil] = forks
			if feas(st2) {
				ex.runBlock(fr, b.Succs[1], b, st2, visits)
			}
			return
		case *ssa.Jump:
			ex.runBlock(fr, b.Succs[0], b, st, visits)
			return
		case *ssa.Return:
			var res []Value
			for _, r := range x.Results {
				res = append(res, ex.get(fr, r))
			}
			fr.retK(st, res)
			return
		case *ssa.Panic:
			ex.addObl(st, "safe", ex.instrLabel("safe:panic", in), False, ex.pos(in))
			return
		case *ssa.Call:
			// calls may fork: continue in continuation
			idx := i
			ex.doCall(fr, x, &x.Call, st, func(st2 *State, fr2 *Frame, res Value) {
				if res != nil {
					fr2.regs[x] = res
				}
				ex.runInstrs(fr2, b, idx+1, st2, visits)
			})
			return
		case *ssa.Defer:
			var args []Value
			for _, a := range x.Call.Args {
				args = append(args, ex.get(fr, a))
			}
			d := deferred{call: &x.Call, args: args}
			d.fnv = ex.get(fr, x.Call.Value)
			fr.defers = append(fr.defers, d)
		case *ssa.RunDefers:
			idx := i
			ex.runDefers(fr, st, len(fr.defers)-1, func(st2 *State, fr2 *Frame) {
				fr2.defers = nil
				ex.runInstrs(fr2, b, idx+1, st2, visits)
			})
			return
		default:
			ex.step(fr, in, st)
		}
	}
}

// guard runs f, converting abortPath panics into recorded failures.
func (ex *Exec) guard(f func()) {
	defer func() {
		if r := recover(); r != nil {
			if a, ok := r.(abortPath); ok {
				if !strings.HasPrefix(a.reason, "definite panic") {
					ex.fail(a.reason)
				}
				ex.paths++
				return
			}
			panic(r)
		}
	}()
	f()
}

func (ex *Exec) runDefers(fr *Frame, st *State, k int, cont func(st *State, fr *Frame)) {
	if k < 0 {
		cont(st, fr)
		return
	}
	d := fr.defers[k]
	ex.callValue(fr, nil, d.call, d.fnv, d.args, st, func(st2 *State, fr2 *Frame, res Value) {
		ex.runDefers(fr2, st2, k-1, cont)
	})
}

// ---------- simple instructions ----------

func (ex *Exec) step(fr *Frame, in ssa.Instruction, st *State) {
	switch x := in.(type) {
	case *ssa.Alloc:
		a := st.FreshRegion()
		fr.regs[x] = a
	case *ssa.BinOp:
		fr.regs[x] = ex.binop(fr, x, st)
	case *ssa.UnOp:
		fr.regs[x] = ex.unop(fr, x, st)
	case *ssa.Convert:
		fr.regs[x] = ex.convert(ex.get(fr, x.X), x.X.Type(), x.Type(), st)
	case *ssa.ChangeType:
		fr.regs[x] = ex.get(fr, x.X)
	case *ssa.ChangeInterface:
		fr.regs[x] = ex.get(fr, x.X)
	case *ssa.MakeInterface:
		fr.regs[x] = ex.makeInterface(x.X.Type(), ex.get(fr, x.X), st)
	case *ssa.TypeAssert:
		fr.regs[x] = ex.typeAssert(fr, x, st)
	case *ssa.Extract:
		fr.regs[x] = ex.get(fr, x.Tuple).(*TupleV).Elems[x.Index]
	case *ssa.Field:
		fr.regs[x] = ex.get(fr, x.X).(*TupleV).Elems[x.Field]
	case *ssa.FieldAddr:
		p := ex.get(fr, x.X).(*Term)
		ex.safe(st, in, "nil", Neq(Rg(p), IntConst(0)))
		fr.regs[x] = FldAddr(p, x.Field)
	case *ssa.Index:
		fr.regs[x] = ex.indexValue(fr, x, st)
	case *ssa.IndexAddr:
		fr.regs[x] = ex.indexAddr(fr, x, st)
	case *ssa.Slice:
		fr.regs[x] = ex.sliceOp(fr, x, st)
	case *ssa.Store:
		a := ex.get(fr, x.Addr).(*Term)
		ex.safe(st, in, "nil", Neq(Rg(a), IntConst(0)))
		ex.checkFrame(st, in, a)
		st.StoreVal(x.Val.Type(), a, ex.get(fr, x.Val))
	case *ssa.MakeSlice:
		ex.makeSlice(fr, x, st)
	case *ssa.MakeMap:
		m := st.FreshRegion()
		if ex.initMode {
			if ex.initMaps == nil {
				ex.initMaps = map[int64]bool{}
			}
			ex.initMaps[*st.nextRg] = true
		}
		fr.regs[x] = m
	case *ssa.MapUpdate:
		ex.mapUpdate(fr, x, st)
	case *ssa.Lookup:
		fr.regs[x] = ex.lookup(fr, x, st)
	case *ssa.MakeClosure:
		var bs []Value
		for _, b := range x.Bindings {
			bs = append(bs, ex.get(fr, b))
		}
		fv := &FuncV{Fn: x.Fn.(*ssa.Function), Bindings: bs}
		if len(bs) == 0 {
			fv.Sym = ex.eng.funcID(x.Fn.(*ssa.Function))
		}
		fr.regs[x] = fv
	case *ssa.Range:
		fr.regs[x] = ex.rangeInit(fr, x, st)
	case *ssa.Next:
		fr.regs[x] = ex.rangeNext(fr, x, st)
	case *ssa.SliceToArrayPointer:
		s := ex.get(fr, x.X).(*SliceV)
		n := x.Type().(*types.Pointer).Elem().Underlying().(*types.Array).Len()
		ex.safe(st, in, "slice2array", BVCmp("bvuge", s.Len, BVc(n, 64)))
		// only offset 0 bases are representable as array pointers
		if !isZero(Subst(s.Off, st.substMap())) {
			panic(abortPath{"slice-to-array-pointer with non-zero offset unsupported"})
		}
		fr.regs[x] = s.Base
	default:
		panic(abortPath{fmt.Sprintf("unsupported instruction %T in %s", in, fr.fn)})
	}
}

func (ex *Exec) checkFrame(st *State, in ssa.Instruction, a *Term) {
	if st.frameCheck != nil {
		st.frameCheck(ex, st, in, a)
	}
}

func goShift(op string, x, y *Term, ySigned bool) *Term {
	w := x.Sort.Width()
	yw := y.Sort.Width()
	var yy *Term
	if yw == w {
		yy = y
	} else if yw < w {
		yy = ZeroExt(y, w)
	} else {
		// wider shift count: saturate
		big_ := BVCmp("bvuge", y, BVc(int64(w), yw))
		yy = Ite(big_, BVc(int64(w), w), Extract(w-1, 0, y))
	}
	return BVBin(op, x, yy)
}

func (ex *Exec) binop(fr *Frame, x *ssa.BinOp, st *State) Value {
	a, b := ex.get(fr, x.X), ex.get(fr, x.Y)
	t := x.X.Type()
	switch x.Op {
	case token.EQL, token.NEQ:
		var e *Term
		switch kindOf(t) {
		case KIface:
			ia, ib := a.(*IfaceV), b.(*IfaceV)
			// comparison against nil interface: tag only
			if isZero(ib.Tag) || isZero(ia.Tag) {
				e = Eq(ia.Tag, ib.Tag)
			} else {
				e = And(Eq(ia.Tag, ib.Tag), Eq(ia.Data, ib.Data))
			}
		case KSlice:
			// only comparison with nil is legal
			sa, sb := a.(*SliceV), b.(*SliceV)
			if sb == NilSlice {
				e = Eq(Rg(sa.Base), IntConst(0))
			} else if sa == NilSlice {
				e = Eq(Rg(sb.Base), IntConst(0))
			} else {
				panic(abortPath{"slice comparison"})
			}
		case KScalar:
			ta, tb := a.(*Term), b.(*Term)
			if ta.Sort == SAddr {
				// pointer/map comparison; nil comparisons on region
				if tb == NilAddr {
					e = Eq(Rg(ta), IntConst(0))
				} else if ta == NilAddr {
					e = Eq(Rg(tb), IntConst(0))
				} else {
					e = Eq(ta, tb)
				}
			} else if ta.Sort.IsFP() {
				e = FPEq(ta, tb)
			} else {
				e = Eq(ta, tb)
			}
		default:
			e = ValueEq(t, a, b)
		}
		if x.Op == token.NEQ {
			return Not(e)
		}
		return e
	}
	ta, tb := a.(*Term), b.(*Term)
	if isString(t) {
		switch x.Op {
		case token.ADD:
			return App("str_concat", BV(64), ta, tb)
		case token.LSS:
			return App("str_lt", SBool, ta, tb)
		case token.GTR:
			return App("str_lt", SBool, tb, ta)
		case token.LEQ:
			return Not(App("str_lt", SBool, tb, ta))
		case token.GEQ:
			return Not(App("str_lt", SBool, ta, tb))
		}
	}
	if ta.Sort.IsFP() {
		switch x.Op {
		case token.ADD:
			return FPBin("fp.add", ta, tb)
		case token.SUB:
			return FPBin("fp.sub", ta, tb)
		case token.MUL:
			return FPBin("fp.mul", ta, tb)
		case token.QUO:
			return FPBin("fp.div", ta, tb)
		case token.LSS:
			return FPCmp("fp.lt", ta, tb)
		case token.LEQ:
			return FPCmp("fp.leq", ta, tb)
		case token.GTR:
			return FPCmp("fp.gt", ta, tb)
		case token.GEQ:
			return FPCmp("fp.geq", ta, tb)
		}
		panic(abortPath{"fp binop " + x.Op.String()})
	}
	if ta.Sort == SBool {
		switch x.Op {
		case token.AND, token.LAND:
			return And(ta, tb)
		case token.OR, token.LOR:
			return Or(ta, tb)
		case token.XOR:
			return Not(Eq(ta, tb))
		}
	}
	signed := isSigned(t)
	switch x.Op {
	case token.ADD:
		return BVBin("bvadd", ta, tb)
	case token.SUB:
		return BVBin("bvsub", ta, tb)
	case token.MUL:
		return BVBin("bvmul", ta, tb)
	case token.QUO:
		ex.safe(st, x, "div0", Neq(tb, BVc(0, tb.Sort.Width())))
		if q, _, ok := divByConst(st, ta, tb, signed); ok {
			return q
		}
		if signed {
			return BVBin("bvsdiv", ta, tb)
		}
		return BVBin("bvudiv", ta, tb)
	case token.REM:
		ex.safe(st, x, "div0", Neq(tb, BVc(0, tb.Sort.Width())))
		if _, r, ok := divByConst(st, ta, tb, signed); ok {
			return r
		}
		if signed {
			return BVBin("bvsrem", ta, tb)
		}
		return BVBin("bvurem", ta, tb)
	case token.AND:
		return BVBin("bvand", ta, tb)
	case token.OR:
		return BVBin("bvor", ta, tb)
	case token.XOR:
		return BVBin("bvxor", ta, tb)
	case token.AND_NOT:
		return BVBin("bvand", ta, BVNot(tb))
	case token.SHL, token.SHR:
		ys := isSigned(x.Y.Type())
		if ys {
			ex.safe(st, x, "negshift", BVCmp("bvsge", tb, BVc(0, tb.Sort.Width())))
		}
		if x.Op == token.SHL {
			return goShift("bvshl", ta, tb, ys)
		}
		if signed {
			return goShift("bvashr", ta, tb, ys)
		}
		return goShift("bvlshr", ta, tb, ys)
	case token.LSS, token.LEQ, token.GTR, token.GEQ:
		p := "bvu"
		if signed {
			p = "bvs"
		}
		return BVCmp(p+map[token.Token]string{token.LSS: "lt", token.LEQ: "le", token.GTR: "gt", token.GEQ: "ge"}[x.Op], ta, tb)
	}
	panic(abortPath{"binop " + x.Op.String()})
}

func (ex *Exec) unop(fr *Frame, x *ssa.UnOp, st *State) Value {
	v := ex.get(fr, x.X)
	switch x.Op {
	case token.MUL: // load
		a := v.(*Term)
		ex.safe(st, x, "nil", Neq(Rg(a), IntConst(0)))
		return st.Load(x.Type(), a)
	case token.NOT:
		return Not(v.(*Term))
	case token.SUB:
		t := v.(*Term)
		if t.Sort.IsFP() {
			return FPNeg(t)
		}
		return BVNeg(t)
	case token.XOR:
		return BVNot(v.(*Term))
	}
	panic(abortPath{"unop " + x.Op.String()})
}

func (ex *Exec) convert(v Value, from, to types.Type, st *State) Value {
	fk, tk := kindOf(from), kindOf(to)
	if fk == KScalar && tk == KScalar {
		t := v.(*Term)
		switch {
		case isInteger(from) && isInteger(to):
			w := scalarSort(to).Width()
			if isSigned(from) {
				return SignExt(t, w)
			}
			return ZeroExt(t, w)
		case isInteger(from) && isFloat(to):
			// a value known (from the path assumptions) to lie in a small non-negative range is
			// converted from its low bits only: same value, far smaller conversion circuit
			if lo, hi, ok := st.boundsOf(t, isSigned(from)); ok && lo.Sign() >= 0 && hi.BitLen() < t.Sort.Width()-1 && hi.BitLen() <= 24 {
				k := hi.BitLen()
				if k == 0 {
					k = 1
				}
				return FPFromInt(Extract(k-1, 0, t), false, scalarSort(to))
			}
			return FPFromInt(t, isSigned(from), scalarSort(to))
		case isFloat(from) && isInteger(to):
			return FPToInt(t, isSigned(to), scalarSort(to).Width())
		case isFloat(from) && isFloat(to):
			return FPToFP(t, scalarSort(to))
		case isInteger(from) && isString(to):
			return App("str_from_rune", BV(64), SignExt(t, 64))
		case isString(from) && isString(to):
			return t
		case t.Sort == SAddr && scalarSort(to) == SAddr:
			return t
		}
	}
	if fk == KSlice && tk == KScalar && isString(to) {
		s := v.(*SliceV)
		// string(bytes): opaque function of the content; we model it through a
		// per-call fresh string whose length equals the slice length.
		r := FreshVar("str", BV(64))
		st.Assume(Eq(App("str_len", BV(64), r), s.Len))
		ex.eng.noteStrFromBytes(st, r, s)
		return r
	}
	if fk == KScalar && isString(from) && tk == KSlice {
		t := v.(*Term)
		base := st.FreshRegion()
		n := ex.eng.strLen(t)
		s := &SliceV{Base: base, Off: BVc(0, 64), Len: n, Cap: n}
		ex.eng.noteBytesFromStr(st, s, t)
		return s
	}
	if fk == KSlice && tk == KSlice {
		return v
	}
	panic(abortPath{fmt.Sprintf("convert %s -> %s", from, to)})
}

func (ex *Exec) makeInterface(t types.Type, v Value, st *State) Value {
	tag := ex.eng.tags.Tag(t)
	if _, isPtr := t.Underlying().(*types.Pointer); isPtr {
		return &IfaceV{Tag: tag, Data: v.(*Term)}
	}
	box := st.FreshRegion()
	st.StoreVal(t, box, v)
	return &IfaceV{Tag: tag, Data: box}
}

func (ex *Exec) unbox(t types.Type, iv *IfaceV, st *State) Value {
	if _, isPtr := t.Underlying().(*types.Pointer); isPtr {
		return iv.Data
	}
	return st.Load(t, iv.Data)
}

func (ex *Exec) typeAssert(fr *Frame, x *ssa.TypeAssert, st *State) Value {
	iv := ex.get(fr, x.X).(*IfaceV)
	at := x.AssertedType
	var ok *Term
	var val Value
	if types.IsInterface(at) {
		// asserted to an interface: ok iff dynamic type implements it.
		ok = ex.eng.implementsTerm(iv.Tag, at)
		val = iv
	} else {
		ok = Eq(iv.Tag, ex.eng.tags.Tag(at))
		okc := Subst(ok, st.substMap())
		if okc.IsFalse() {
			val = ZeroValue(at)
		} else {
			val = ex.unbox(at, iv, st)
			if !okc.IsTrue() {
				val = IteValue(ok, val, ZeroValue(at))
			}
		}
	}
	if x.CommaOk {
		return &TupleV{Elems: []Value{val, ok}}
	}
	ex.safe(st, x, "typeassert", ok)
	return val
}

func (ex *Exec) indexValue(fr *Frame, x *ssa.Index, st *State) Value {
	xv := ex.get(fr, x.X)
	idx := ex.toIndex(ex.get(fr, x.Index).(*Term), x.Index.Type())
	if isString(x.X.Type()) {
		s := xv.(*Term)
		ex.safe(st, x, "index", BVCmp("bvult", idx, ex.eng.strLen(s)))
		return App("str_at", BV(8), s, idx)
	}
	tv := xv.(*TupleV)
	n := int64(len(tv.Elems))
	ex.safe(st, x, "index", BVCmp("bvult", idx, BVc(n, 64)))
	ci := Subst(idx, st.substMap())
	if ci.IsConst() {
		return tv.Elems[ci.Val.Int64()]
	}
	// ite chain
	var r Value = tv.Elems[n-1]
	for i := n - 2; i >= 0; i-- {
		r = IteValue(Eq(idx, BVc(i, 64)), tv.Elems[i], r)
	}
	return r
}

// toIndex converts an integer index value of Go type t to a BV64.
func (ex *Exec) toIndex(v *Term, t types.Type) *Term {
	if isSigned(t) {
		return SignExt(v, 64)
	}
	return ZeroExt(v, 64)
}

func (ex *Exec) indexAddr(fr *Frame, x *ssa.IndexAddr, st *State) Value {
	idx := ex.toIndex(ex.get(fr, x.Index).(*Term), x.Index.Type())
	switch u := x.X.Type().Underlying().(type) {
	case *types.Slice:
		s := ex.get(fr, x.X).(*SliceV)
		ex.safe(st, x, "index", BVCmp("bvult", idx, s.Len))
		return s.ElemAddr(idx)
	case *types.Pointer:
		ar := u.Elem().Underlying().(*types.Array)
		p := ex.get(fr, x.X).(*Term)
		ex.safe(st, x, "nil", Neq(Rg(p), IntConst(0)))
		ex.safe(st, x, "index", BVCmp("bvult", idx, BVc(ar.Len(), 64)))
		return ElemAddr(p, idx)
	}
	panic(abortPath{"indexaddr on " + x.X.Type().String()})
}

func (ex *Exec) sliceOp(fr *Frame, x *ssa.Slice, st *State) Value {
	var lo, hi, max *Term
	if x.Low != nil {
		lo = ex.toIndex(ex.get(fr, x.Low).(*Term), x.Low.Type())
	} else {
		lo = BVc(0, 64)
	}
	if x.High != nil {
		hi = ex.toIndex(ex.get(fr, x.High).(*Term), x.High.Type())
	}
	if x.Max != nil {
		max = ex.toIndex(ex.get(fr, x.Max).(*Term), x.Max.Type())
	}
	switch u := x.X.Type().Underlying().(type) {
	case *types.Slice:
		s := ex.get(fr, x.X).(*SliceV)
		if hi == nil {
			hi = s.Len
		}
		cp := s.Cap
		if max != nil {
			ex.safe(st, x, "slice", And(BVCmp("bvule", max, s.Cap), BVCmp("bvule", hi, max), BVCmp("bvule", lo, hi)))
			cp = max
		} else {
			ex.safe(st, x, "slice", And(BVCmp("bvule", hi, s.Cap), BVCmp("bvule", lo, hi)))
		}
		return &SliceV{Base: s.Base, Off: BVBin("bvadd", s.Off, lo), Len: BVBin("bvsub", hi, lo), Cap: BVBin("bvsub", cp, lo)}
	case *types.Pointer:
		ar := u.Elem().Underlying().(*types.Array)
		p := ex.get(fr, x.X).(*Term)
		ex.safe(st, x, "nil", Neq(Rg(p), IntConst(0)))
		n := BVc(ar.Len(), 64)
		if hi == nil {
			hi = n
		}
		cp := n
		if max != nil {
			ex.safe(st, x, "slice", And(BVCmp("bvule", max, n), BVCmp("bvule", hi, max), BVCmp("bvule", lo, hi)))
			cp = max
		} else {
			ex.safe(st, x, "slice", And(BVCmp("bvule", hi, n), BVCmp("bvule", lo, hi)))
		}
		return &SliceV{Base: p, Off: lo, Len: BVBin("bvsub", hi, lo), Cap: BVBin("bvsub", cp, lo)}
	case *types.Basic: // string
		s := ex.get(fr, x.X).(*Term)
		n := ex.eng.strLen(s)
		if hi == nil {
			hi = n
		}
		ex.safe(st, x, "slice", And(BVCmp("bvule", hi, n), BVCmp("bvule", lo, hi)))
		r := App("str_sub", BV(64), s, lo, hi)
		st.Assume(Eq(App("str_len", BV(64), r), BVBin("bvsub", hi, lo)))
		return r
	}
	panic(abortPath{"slice of " + x.X.Type().String()})
}

func (ex *Exec) makeSlice(fr *Frame, x *ssa.MakeSlice, st *State) {
	n := ex.toIndex(ex.get(fr, x.Len).(*Term), x.Len.Type())
	c := ex.toIndex(ex.get(fr, x.Cap).(*Term), x.Cap.Type())
	ex.safe(st, x, "makeslice", And(BVCmp("bvule", n, c), BVCmp("bvule", c, maxObj)))
	// name composite length expressions: smaller terms in quantifier instantiations
	same := n == c
	if !n.IsConst() && n.Op != "var" {
		v := FreshVar("mklen", BV(64))
		st.Assume(Eq(v, n))
		la := make(map[*Term]*Term, len(st.lenAlias)+1)
		for k, x := range st.lenAlias {
			la[k] = x
		}
		la[v] = n
		st.lenAlias = la
		n = v
	}
	if same {
		c = n
	} else if !c.IsConst() && c.Op != "var" {
		v := FreshVar("mkcap", BV(64))
		st.Assume(Eq(v, c))
		c = v
	}
	base := st.FreshRegion()
	fr.regs[x] = &SliceV{Base: base, Off: BVc(0, 64), Len: n, Cap: c}
	if sl, ok := x.Type().Underlying().(*types.Slice); ok {
		if b, ok := sl.Elem().Underlying().(*types.Basic); ok && b.Kind() == types.Uint8 {
			// byte buffers built locally: content tracked as a sequence of segments
			id := *st.nextRg
			if isZero(n) {
				st.setRegionSeq(id, []Seg{})
			} else {
				st.setRegionSeq(id, []Seg{{Zero: n}})
			}
			st.setRegionLen(id, n)
		}
	}
}

// ---------- maps ----------

func keyToBV(v Value, t types.Type) *Term {
	k := v.(*Term)
	switch {
	case k.Sort == SBool:
		return Ite(k, BVc(1, 64), BVc(0, 64))
	case k.Sort.IsBV():
		if isSigned(t) {
			return SignExt(k, 64)
		}
		return ZeroExt(k, 64)
	}
	panic(abortPath{"map key type " + t.String()})
}

func mapEntry(m *Term, k *Term) (val, present *Term) {
	e := ElemAddr(m, k)
	return FldAddr(e, 0), FldAddr(e, 1)
}
func mapLenAddr(m *Term) *Term { return FldAddr(m, 0) }

func (ex *Exec) mapUpdate(fr *Frame, x *ssa.MapUpdate, st *State) {
	m := ex.get(fr, x.Map).(*Term)
	mt := x.Map.Type().Underlying().(*types.Map)
	ex.safe(st, x, "nilmap", Neq(Rg(m), IntConst(0)))
	k := keyToBV(ex.get(fr, x.Key), mt.Key())
	va, pa := mapEntry(m, k)
	ex.checkFrame(st, x, va)
	old := st.loadScalar(SBool, pa)
	st.StoreVal(mt.Elem(), va, ex.get(fr, x.Value))
	st.storeScalar(SBool, pa, True)
	la := mapLenAddr(m)
	st.storeScalar(BV(64), la, BVBin("bvadd", st.loadScalar(BV(64), la), Ite(old, BVc(0, 64), BVc(1, 64))))
	if rg := Rg(m); rg.IsConst() && !k.IsConst() {
		st.markOpaque(rg.Val.Int64())
	} else if rg := Rg(m); rg.IsConst() {
		id := rg.Val.Int64()
		dup := false
		for _, e := range st.mapKeys[id] {
			if e == k {
				dup = true
			}
		}
		if !dup {
			st.mapKeys[id] = append(st.mapKeys[id], k)
		}
	}
}

func (ex *Exec) lookup(fr *Frame, x *ssa.Lookup, st *State) Value {
	if isString(x.X.Type()) {
		s := ex.get(fr, x.X).(*Term)
		idx := ex.toIndex(ex.get(fr, x.Index).(*Term), x.Index.Type())
		ex.safe(st, x, "index", BVCmp("bvult", idx, ex.eng.strLen(s)))
		return App("str_at", BV(8), s, idx)
	}
	m := ex.get(fr, x.X).(*Term)
	mt := x.X.Type().Underlying().(*types.Map)
	k := keyToBV(ex.get(fr, x.Index), mt.Key())
	v, present := ex.mapLookup(st, mt, Subst(m, st.substMap()), Subst(k, st.substMap()))
	if x.CommaOk {
		return &TupleV{Elems: []Value{v, present}}
	}
	return v
}

// mapLookup: value and presence of key k in map m.  For maps whose key set is completely known
// (built in this execution / by package init with constant keys) a symbolic key is resolved by
// an if-then-else chain over the known keys instead of array reasoning.
func (ex *Exec) mapLookup(st *State, mt *types.Map, m, k *Term) (Value, *Term) {
	if m.Op == "ite" {
		v1, p1 := ex.mapLookup(st, mt, m.Args[1], k)
		v2, p2 := ex.mapLookup(st, mt, m.Args[2], k)
		return IteValue(m.Args[0], v1, v2), Ite(m.Args[0], p1, p2)
	}
	if m == NilAddr {
		return ZeroValue(mt.Elem()), False
	}
	if rg := Rg(m); rg.IsConst() && m.Op == "mkaddr" && m.Args[1] == PNil {
		if keys, ok := st.mapKeys[rg.Val.Int64()]; ok && !st.opaqueMaps[rg.Val.Int64()] && !k.IsConst() && len(keys) <= 64 {
			var v Value = ZeroValue(mt.Elem())
			present := False
			for i := len(keys) - 1; i >= 0; i-- {
				va, pa := mapEntry(m, keys[i])
				pi := st.loadScalar(SBool, pa)
				if pi.IsFalse() {
					continue
				}
				hit := Eq(k, keys[i])
				vi := st.Load(mt.Elem(), va)
				if !pi.IsTrue() {
					hit = And(hit, pi)
				}
				v = IteValue(hit, vi, v)
				present = Or(hit, present)
			}
			return v, present
		}
	}
	va, pa := mapEntry(m, k)
	present := And(Neq(Rg(m), IntConst(0)), st.loadScalar(SBool, pa))
	present = Subst(present, st.substMap())
	var v Value
	if present.IsFalse() {
		v = ZeroValue(mt.Elem())
	} else {
		v = st.Load(mt.Elem(), va)
		if !present.IsTrue() {
			v = IteValue(present, v, ZeroValue(mt.Elem()))
		}
	}
	return v, present
}

// range over maps with concretely known key sets (tables built in this
// execution): iteration in insertion order is ONE possible order, so this is
// only enabled when the engine option allows it; callers relying on it must be
// order-independent (noted as assumption "map-order").
type rangeIter struct {
	m    *Term
	mt   *types.Map
	keys []*Term
	pos  int
	str  bool
}

func (ex *Exec) rangeInit(fr *Frame, x *ssa.Range, st *State) Value {
	if mt, ok := x.X.Type().Underlying().(*types.Map); ok {
		m := ex.get(fr, x.X).(*Term)
		rg := Subst(Rg(m), st.substMap())
		if rg.IsConst() {
			if rg.Val.Sign() == 0 {
				return &FuncV{Fn: &rangeIter{m: m, mt: mt}}
			}
			keys := append([]*Term{}, st.mapKeys[rg.Val.Int64()]...)
			if ex.eng.mapOrderSeed != 0 {
				// deterministic permutation for order-independence testing
				sort.Slice(keys, func(i, j int) bool {
					return (keys[i].id*ex.eng.mapOrderSeed)%7919 < (keys[j].id*ex.eng.mapOrderSeed)%7919
				})
			}
			ex.intrUsed["assume:map-iteration-order(insertion order explored)"] = true
			return &FuncV{Fn: &rangeIter{m: m, mt: mt, keys: keys}}
		}
		panic(abortPath{"range over map with unknown key set"})
	}
	panic(abortPath{"range over " + x.X.Type().String()})
}

func (ex *Exec) rangeNext(fr *Frame, x *ssa.Next, st *State) Value {
	it := ex.get(fr, x.Iter).(*FuncV).Fn.(*rangeIter)
	tup := x.Type().(*types.Tuple)
	if it.pos >= len(it.keys) {
		return &TupleV{Elems: []Value{False, ZeroValue(tup.At(1).Type()), ZeroValue(tup.At(2).Type())}}
	}
	k := it.keys[it.pos]
	// advance: iterator is shared by forks, so copy
	nit := *it
	nit.pos++
	fr.regs[x.Iter] = &FuncV{Fn: &nit}
	va, _ := mapEntry(it.m, k)
	var kv Value
	kt := tup.At(1).Type()
	if _, inv := kt.Underlying().(*types.Basic); inv && kt.Underlying().(*types.Basic).Kind() == types.Invalid {
		kv = BVc(0, 64)
	} else {
		kv = bvToKey(k, it.mt.Key())
	}
	var vv Value
	vt := tup.At(2).Type()
	if b, isB := vt.Underlying().(*types.Basic); isB && b.Kind() == types.Invalid {
		vv = BVc(0, 64)
	} else {
		vv = st.Load(it.mt.Elem(), va)
	}
	return &TupleV{Elems: []Value{True, kv, vv}}
}

func bvToKey(k *Term, t types.Type) Value {
	s := scalarSort(t)
	if s == SBool {
		return Neq(k, BVc(0, 64))
	}
	return Extract(s.Width()-1, 0, k)
}

// divByConst: 64-bit division of a symbolic value by a positive constant is
// expressed through its defining equation x = q*c + r (exact, truncated
// division), which SMT solvers handle far better than a division circuit.
var divCache = map[[2]int][2]*Term{}

func divByConst(st *State, x, c *Term, signed bool) (q, r *Term, ok bool) {
	if !c.IsConst() || x.IsConst() {
		return nil, nil, false
	}
	w := x.Sort.Width()
	var cv *big.Int
	if signed {
		cv = c.Signed()
	} else {
		cv = c.Val
	}
	if cv.Sign() <= 0 || cv.Cmp(big.NewInt(1)) == 0 {
		return nil, nil, false
	}
	// powers of two (any width): shifts and masks (truncated division: negate around the shift for negatives)
	if new(big.Int).And(cv, new(big.Int).Sub(cv, big.NewInt(1))).Sign() == 0 {
		n := BVc(int64(cv.BitLen()-1), w)
		m := BVConst(new(big.Int).Sub(cv, big.NewInt(1)), w)
		if !signed {
			return BVBin("bvlshr", x, n), BVBin("bvand", x, m), true
		}
		neg := BVCmp("bvslt", x, BVc(0, w))
		q = Ite(neg, BVNeg(BVBin("bvlshr", BVNeg(x), n)), BVBin("bvlshr", x, n))
		r = Ite(neg, BVNeg(BVBin("bvand", BVNeg(x), m)), BVBin("bvand", x, m))
		return q, r, true
	}
	if w != 64 || cv.BitLen() > 40 {
		return nil, nil, false
	}
	key := [2]int{x.id, c.id}
	if signed {
		key[1] = -c.id
	}
	qr, have := divCache[key]
	if !have {
		qr = [2]*Term{FreshVar("divq", BV(64)), FreshVar("divr", BV(64))}
		divCache[key] = qr
	}
	q, r = qr[0], qr[1]
	eq := Eq(x, BVBin("bvadd", BVBin("bvmul", q, c), r))
	if signed {
		lim := new(big.Int).Quo(new(big.Int).Lsh(big.NewInt(1), 63), cv)
		qb := And(BVCmp("bvsle", q, BVConst(lim, 64)), BVCmp("bvsge", q, BVConst(new(big.Int).Neg(lim), 64)))
		pos := And(BVCmp("bvsge", r, BVc(0, 64)), BVCmp("bvslt", r, c), BVCmp("bvsge", q, BVc(0, 64)))
		neg := And(BVCmp("bvsle", r, BVc(0, 64)), BVCmp("bvsgt", r, BVNeg(c)), BVCmp("bvsle", q, BVc(0, 64)))
		st.Assume(And(eq, qb, Ite(BVCmp("bvsge", x, BVc(0, 64)), pos, neg)))
	} else {
		lim := new(big.Int).Quo(mask(64), cv)
		st.Assume(And(eq, BVCmp("bvule", q, BVConst(lim, 64)), BVCmp("bvult", r, c)))
	}
	return q, r, true
}

func deadlineIn(sec int) time.Time { return time.Now().Add(time.Duration(sec) * time.Second) }
func bigInt(n int64) *big.Int      { return big.NewInt(n) }

// boundsOf: constant bounds lo <= x <= hi found syntactically among the path assumptions.
func (st *State) boundsOf(x *Term, signed bool) (lo, hi *big.Int, ok bool) {
	w := x.Sort.Width()
	var visit func(a *Term)
	visit = func(a *Term) {
		switch a.Op {
		case "and":
			for _, c := range a.Args {
				visit(c)
			}
		case "bvsle", "bvslt", "bvule", "bvult":
			l, r := a.Args[0], a.Args[1]
			sg := a.Op[2] == 's'
			if sg != signed && !(signed && !sg) {
				return
			}
			val := func(c *Term) *big.Int {
				if sg {
					return toSigned(c.Val, w)
				}
				return new(big.Int).Set(c.Val)
			}
			strict := a.Op[3:] == "lt"
			if l == x && r.IsConst() {
				v := val(r)
				if strict {
					v.Sub(v, big.NewInt(1))
				}
				if hi == nil || v.Cmp(hi) < 0 {
					hi = v
				}
			}
			if r == x && l.IsConst() {
				v := val(l)
				if strict {
					v.Add(v, big.NewInt(1))
				}
				if lo == nil || v.Cmp(lo) > 0 {
					lo = v
				}
			}
		case "=":
			if a.Args[0] == x && a.Args[1].IsConst() || a.Args[1] == x && a.Args[0].IsConst() {
				c := a.Args[1]
				if a.Args[1] == x {
					c = a.Args[0]
				}
				v := c.Val
				if signed {
					v = toSigned(c.Val, w)
				}
				lo, hi = v, v
			}
		}
	}
	for _, a := range st.assumes {
		visit(a)
	}
	if v, isC := st.subst[x]; isC && v.IsConst() {
		c := v.Val
		if signed {
			c = toSigned(v.Val, w)
		}
		return c, c, true
	}
	return lo, hi, lo != nil && hi != nil
}

func (st *State) markOpaque(id int64) {
	n := make(map[int64]bool, len(st.opaqueMaps)+1)
	for k, v := range st.opaqueMaps {
		n[k] = v
	}
	n[id] = true
	st.opaqueMaps = n
}
