package main

// Term DAG with hash-consing and construction-time simplification.
// Sorts are SMT-LIB sort strings.

import (
	"fmt"
	"math/big"
	"sort"
	"strconv"
	"strings"
	"sync"
)

type Sort string

const (
	SBool Sort = "Bool"
	SInt  Sort = "Int"
	SAddr Sort = "Addr"
	SPath Sort = "Path"
	SF64  Sort = "(_ FloatingPoint 11 53)"
	SF32  Sort = "(_ FloatingPoint 8 24)"
	SReal Sort = "Real"
)

func BV(w int) Sort { return Sort(fmt.Sprintf("(_ BitVec %d)", w)) }
func ArraySort(idx, el Sort) Sort {
	return Sort("(Array " + string(idx) + " " + string(el) + ")")
}
func (s Sort) IsBV() bool { return strings.HasPrefix(string(s), "(_ BitVec ") }
func (s Sort) Width() int {
	if !s.IsBV() {
		panic("not bv: " + string(s))
	}
	n, _ := strconv.Atoi(strings.TrimSuffix(strings.TrimPrefix(string(s), "(_ BitVec "), ")"))
	return n
}
func (s Sort) IsArray() bool { return strings.HasPrefix(string(s), "(Array ") }
func (s Sort) IsFP() bool    { return strings.HasPrefix(string(s), "(_ FloatingPoint ") }

// ArrayElem returns the element sort of an array sort (index is always Addr or BV64 here).
func (s Sort) ArrayParts() (Sort, Sort) {
	body := strings.TrimSuffix(strings.TrimPrefix(string(s), "(Array "), ")")
	// split at top-level space
	depth := 0
	for i, c := range body {
		switch c {
		case '(':
			depth++
		case ')':
			depth--
		case ' ':
			if depth == 0 {
				return Sort(body[:i]), Sort(body[i+1:])
			}
		}
	}
	panic("bad array sort " + string(s))
}

type Term struct {
	Op    string // "const" (bv/int/bool literal), "var", or SMT operator
	Args  []*Term
	Sort  Sort
	Name  string   // var name, or parameterised op text e.g. "(_ extract 7 0)"
	Val   *big.Int // const value (unsigned for BV; signed for Int); bool: 0/1
	id    int
	bound bool // contains a bound variable
	size  int
}

var (
	termMu   sync.Mutex
	termTab  = map[string]*Term{}
	termNext = 1
)

func intern(t *Term) *Term {
	var sb strings.Builder
	sb.WriteString(t.Op)
	sb.WriteByte('|')
	sb.WriteString(string(t.Sort))
	sb.WriteByte('|')
	sb.WriteString(t.Name)
	if t.Val != nil {
		sb.WriteByte('|')
		sb.WriteString(t.Val.String())
	}
	for _, a := range t.Args {
		sb.WriteByte(',')
		sb.WriteString(strconv.Itoa(a.id))
	}
	k := sb.String()
	termMu.Lock()
	defer termMu.Unlock()
	if o, ok := termTab[k]; ok {
		return o
	}
	t.id = termNext
	termNext++
	t.size = 1
	for _, a := range t.Args {
		if a.bound {
			t.bound = true
		}
		t.size += a.size
		if t.size > 1<<30 {
			t.size = 1 << 30
		}
	}
	termTab[k] = t
	return t
}

func Var(name string, s Sort) *Term { return intern(&Term{Op: "var", Name: name, Sort: s}) }
func BoundVar(name string, s Sort) *Term {
	t := intern(&Term{Op: "bvar", Name: name, Sort: s})
	t.bound = true
	return t
}

var varCounter = map[string]int{}

func FreshVar(prefix string, s Sort) *Term {
	termMu.Lock()
	varCounter[prefix]++
	n := varCounter[prefix]
	termMu.Unlock()
	return Var(fmt.Sprintf("%s!%d", prefix, n), s)
}

func mask(w int) *big.Int {
	m := new(big.Int).Lsh(big.NewInt(1), uint(w))
	return m.Sub(m, big.NewInt(1))
}

func BVConst(v *big.Int, w int) *Term {
	x := new(big.Int).And(v, mask(w))
	return intern(&Term{Op: "const", Sort: BV(w), Val: x})
}
func BVc(v int64, w int) *Term { return BVConst(big.NewInt(v), w) }
func IntConst(v int64) *Term   { return intern(&Term{Op: "const", Sort: SInt, Val: big.NewInt(v)}) }

var (
	True  = intern(&Term{Op: "const", Sort: SBool, Val: big.NewInt(1)})
	False = intern(&Term{Op: "const", Sort: SBool, Val: big.NewInt(0)})
)

func BoolConst(b bool) *Term {
	if b {
		return True
	}
	return False
}

func (t *Term) IsConst() bool { return t.Op == "const" }
func (t *Term) IsTrue() bool  { return t == True }
func (t *Term) IsFalse() bool { return t == False }

// Signed value of a BV constant
func (t *Term) Signed() *big.Int {
	w := t.Sort.Width()
	v := new(big.Int).Set(t.Val)
	if v.Bit(w-1) == 1 {
		v.Sub(v, new(big.Int).Lsh(big.NewInt(1), uint(w)))
	}
	return v
}

func mk(op string, s Sort, args ...*Term) *Term {
	return intern(&Term{Op: op, Sort: s, Args: args})
}
func mkN(op, name string, s Sort, args ...*Term) *Term {
	return intern(&Term{Op: op, Name: name, Sort: s, Args: args})
}

// ---------- boolean ----------

func Not(a *Term) *Term {
	if a.IsTrue() {
		return False
	}
	if a.IsFalse() {
		return True
	}
	if a.Op == "not" {
		return a.Args[0]
	}
	return mk("not", SBool, a)
}

func And(as ...*Term) *Term {
	var out []*Term
	seen := map[int]bool{}
	for _, a := range as {
		if a.IsFalse() {
			return False
		}
		if a.IsTrue() {
			continue
		}
		if a.Op == "and" {
			for _, b := range a.Args {
				if !seen[b.id] {
					seen[b.id] = true
					out = append(out, b)
				}
			}
			continue
		}
		if !seen[a.id] {
			seen[a.id] = true
			out = append(out, a)
		}
	}
	for _, a := range out {
		if a.Op == "not" && seen[a.Args[0].id] {
			return False
		}
	}
	if len(out) == 0 {
		return True
	}
	if len(out) == 1 {
		return out[0]
	}
	return mk("and", SBool, out...)
}

func Or(as ...*Term) *Term {
	var out []*Term
	seen := map[int]bool{}
	for _, a := range as {
		if a.IsTrue() {
			return True
		}
		if a.IsFalse() {
			continue
		}
		if a.Op == "or" {
			for _, b := range a.Args {
				if !seen[b.id] {
					seen[b.id] = true
					out = append(out, b)
				}
			}
			continue
		}
		if !seen[a.id] {
			seen[a.id] = true
			out = append(out, a)
		}
	}
	for _, a := range out {
		if a.Op == "not" && seen[a.Args[0].id] {
			return True
		}
	}
	if len(out) == 0 {
		return False
	}
	if len(out) == 1 {
		return out[0]
	}
	return mk("or", SBool, out...)
}

func Implies(a, b *Term) *Term {
	if a.IsTrue() {
		return b
	}
	if a.IsFalse() || b.IsTrue() {
		return True
	}
	if b.IsFalse() {
		return Not(a)
	}
	return mk("=>", SBool, a, b)
}

func Iff(a, b *Term) *Term { return Eq(a, b) }

func Ite(c, a, b *Term) *Term {
	if c.IsTrue() {
		return a
	}
	if c.IsFalse() {
		return b
	}
	if a == b {
		return a
	}
	if a.Sort != b.Sort {
		panic(fmt.Sprintf("ite sort mismatch %s vs %s", a.Sort, b.Sort))
	}
	if a.Sort == SBool {
		if a.IsTrue() && b.IsFalse() {
			return c
		}
		if a.IsFalse() && b.IsTrue() {
			return Not(c)
		}
		if a.IsTrue() {
			return Or(c, b)
		}
		if b.IsFalse() {
			return And(c, a)
		}
		if a.IsFalse() {
			return And(Not(c), b)
		}
		if b.IsTrue() {
			return Or(Not(c), a)
		}
	}
	if c.Op == "not" {
		return Ite(c.Args[0], b, a)
	}
	return mk("ite", a.Sort, c, a, b)
}

func Eq(a, b *Term) *Term {
	if a == b {
		return True
	}
	if a.Sort != b.Sort {
		panic(fmt.Sprintf("eq sort mismatch %s vs %s: %s / %s", a.Sort, b.Sort, a.Short(), b.Short()))
	}
	if a.IsConst() && b.IsConst() {
		return BoolConst(a.Val.Cmp(b.Val) == 0)
	}
	if a.Sort == SBool {
		if a.IsTrue() {
			return b
		}
		if b.IsTrue() {
			return a
		}
		if a.IsFalse() {
			return Not(b)
		}
		if b.IsFalse() {
			return Not(a)
		}
	}
	if a.Sort == SAddr {
		if r := addrEqSyntactic(a, b); r != nil {
			return r
		}
	}
	// push equality with a constant through ite of constants
	if b.IsConst() && a.Op == "ite" && (a.Args[1].IsConst() || a.Args[2].IsConst()) {
		return Ite(a.Args[0], Eq(a.Args[1], b), Eq(a.Args[2], b))
	}
	if a.IsConst() && b.Op == "ite" && (b.Args[1].IsConst() || b.Args[2].IsConst()) {
		return Ite(b.Args[0], Eq(b.Args[1], a), Eq(b.Args[2], a))
	}
	// zero_extend(x) == const
	if b.IsConst() && a.Op == "zext" {
		iw := a.Args[0].Sort.Width()
		if b.Val.BitLen() > iw {
			return False
		}
		return Eq(a.Args[0], BVConst(b.Val, iw))
	}
	if a.IsConst() && b.Op == "zext" {
		return Eq(b, a)
	}
	if a.id > b.id {
		a, b = b, a
	}
	return mk("=", SBool, a, b)
}

func Neq(a, b *Term) *Term { return Not(Eq(a, b)) }

// ---------- bit-vectors ----------

type bvFold func(x, y *big.Int, w int) *big.Int

func toSigned(v *big.Int, w int) *big.Int {
	x := new(big.Int).Set(v)
	if x.Bit(w-1) == 1 {
		x.Sub(x, new(big.Int).Lsh(big.NewInt(1), uint(w)))
	}
	return x
}

var bvFolds = map[string]bvFold{
	"bvadd": func(x, y *big.Int, w int) *big.Int { return new(big.Int).Add(x, y) },
	"bvsub": func(x, y *big.Int, w int) *big.Int { return new(big.Int).Sub(x, y) },
	"bvmul": func(x, y *big.Int, w int) *big.Int { return new(big.Int).Mul(x, y) },
	"bvand": func(x, y *big.Int, w int) *big.Int { return new(big.Int).And(x, y) },
	"bvor":  func(x, y *big.Int, w int) *big.Int { return new(big.Int).Or(x, y) },
	"bvxor": func(x, y *big.Int, w int) *big.Int { return new(big.Int).Xor(x, y) },
	"bvshl": func(x, y *big.Int, w int) *big.Int {
		if y.Cmp(big.NewInt(int64(w))) >= 0 {
			return big.NewInt(0)
		}
		return new(big.Int).Lsh(x, uint(y.Int64()))
	},
	"bvlshr": func(x, y *big.Int, w int) *big.Int {
		if y.Cmp(big.NewInt(int64(w))) >= 0 {
			return big.NewInt(0)
		}
		return new(big.Int).Rsh(x, uint(y.Int64()))
	},
	"bvashr": func(x, y *big.Int, w int) *big.Int {
		s := toSigned(x, w)
		if y.Cmp(big.NewInt(int64(w))) >= 0 {
			if s.Sign() < 0 {
				return big.NewInt(-1)
			}
			return big.NewInt(0)
		}
		return new(big.Int).Rsh(s, uint(y.Int64()))
	},
	"bvudiv": func(x, y *big.Int, w int) *big.Int {
		if y.Sign() == 0 {
			return mask(w)
		}
		return new(big.Int).Quo(x, y)
	},
	"bvurem": func(x, y *big.Int, w int) *big.Int {
		if y.Sign() == 0 {
			return x
		}
		return new(big.Int).Rem(x, y)
	},
	"bvsdiv": func(x, y *big.Int, w int) *big.Int {
		if y.Sign() == 0 {
			if toSigned(x, w).Sign() < 0 {
				return big.NewInt(1)
			}
			return mask(w)
		}
		return new(big.Int).Quo(toSigned(x, w), toSigned(y, w))
	},
	"bvsrem": func(x, y *big.Int, w int) *big.Int {
		if y.Sign() == 0 {
			return x
		}
		return new(big.Int).Rem(toSigned(x, w), toSigned(y, w))
	},
}

func isZero(t *Term) bool { return t.IsConst() && t.Val.Sign() == 0 }
func isAllOnes(t *Term) bool {
	return t.IsConst() && t.Sort.IsBV() && t.Val.Cmp(mask(t.Sort.Width())) == 0
}

func BVBin(op string, a, b *Term) *Term {
	if a.Sort != b.Sort {
		panic(fmt.Sprintf("%s sort mismatch %s vs %s (%s, %s)", op, a.Sort, b.Sort, a.Short(), b.Short()))
	}
	w := a.Sort.Width()
	if a.IsConst() && b.IsConst() {
		return BVConst(bvFolds[op](a.Val, b.Val, w), w)
	}
	switch op {
	case "bvadd":
		if isZero(a) {
			return b
		}
		if isZero(b) {
			return a
		}
		// (x + c1) + c2
		if b.IsConst() && a.Op == "bvadd" && a.Args[1].IsConst() {
			return BVBin("bvadd", a.Args[0], BVBin("bvadd", a.Args[1], b))
		}
		if a.IsConst() {
			a, b = b, a
		}
	case "bvsub":
		if isZero(b) {
			return a
		}
		if a == b {
			return BVc(0, w)
		}
		if b.IsConst() {
			return BVBin("bvadd", a, BVConst(new(big.Int).Neg(b.Val), w))
		}
		// (x + c) - x = c
		if a.Op == "bvadd" && a.Args[0] == b {
			return a.Args[1]
		}
	case "bvmul":
		if isZero(a) || isZero(b) {
			return BVc(0, w)
		}
		if a.IsConst() && a.Val.Cmp(big.NewInt(1)) == 0 {
			return b
		}
		if b.IsConst() && b.Val.Cmp(big.NewInt(1)) == 0 {
			return a
		}
	case "bvand":
		if isZero(a) || isZero(b) {
			return BVc(0, w)
		}
		if isAllOnes(a) {
			return b
		}
		if isAllOnes(b) {
			return a
		}
		if a == b {
			return a
		}
	case "bvor":
		if isZero(a) {
			return b
		}
		if isZero(b) {
			return a
		}
		if a == b {
			return a
		}
		if isAllOnes(a) || isAllOnes(b) {
			return BVConst(mask(w), w)
		}
	case "bvxor":
		if isZero(a) {
			return b
		}
		if isZero(b) {
			return a
		}
		if a == b {
			return BVc(0, w)
		}
	case "bvshl", "bvlshr", "bvashr":
		if isZero(b) {
			return a
		}
		if isZero(a) {
			return a
		}
	case "bvudiv", "bvsdiv":
		if b.IsConst() && b.Val.Cmp(big.NewInt(1)) == 0 {
			return a
		}
	}
	return mk(op, a.Sort, a, b)
}

func BVNot(a *Term) *Term {
	w := a.Sort.Width()
	if a.IsConst() {
		return BVConst(new(big.Int).Xor(a.Val, mask(w)), w)
	}
	if a.Op == "bvnot" {
		return a.Args[0]
	}
	return mk("bvnot", a.Sort, a)
}
func BVNeg(a *Term) *Term {
	w := a.Sort.Width()
	if a.IsConst() {
		return BVConst(new(big.Int).Neg(a.Val), w)
	}
	return mk("bvneg", a.Sort, a)
}

func BVCmp(op string, a, b *Term) *Term {
	if a.Sort != b.Sort {
		panic(fmt.Sprintf("%s sort mismatch %s vs %s (%s ; %s)", op, a.Sort, b.Sort, a.Short(), b.Short()))
	}
	w := a.Sort.Width()
	if a.IsConst() && b.IsConst() {
		var c int
		if strings.HasPrefix(op, "bvs") {
			c = toSigned(a.Val, w).Cmp(toSigned(b.Val, w))
		} else {
			c = a.Val.Cmp(b.Val)
		}
		switch op[3:] {
		case "lt":
			return BoolConst(c < 0)
		case "le":
			return BoolConst(c <= 0)
		case "gt":
			return BoolConst(c > 0)
		case "ge":
			return BoolConst(c >= 0)
		}
	}
	if a == b {
		switch op[3:] {
		case "lt", "gt":
			return False
		default:
			return True
		}
	}
	switch op {
	case "bvult":
		if isZero(b) {
			return False
		}
	case "bvuge":
		if isZero(b) {
			return True
		}
	case "bvugt":
		if isZero(a) {
			return False
		}
	case "bvule":
		if isZero(a) {
			return True
		}
	}
	// comparisons of zero-extended narrow values against constants
	if b.IsConst() && a.Op == "zext" && !strings.HasPrefix(op, "bvs") {
		iw := a.Args[0].Sort.Width()
		if b.Val.BitLen() <= iw {
			return BVCmp(op, a.Args[0], BVConst(b.Val, iw))
		}
		// const larger than any value of a
		switch op {
		case "bvult", "bvule":
			return True
		case "bvugt", "bvuge":
			return False
		}
	}
	// normalise gt/ge to lt/le
	switch op {
	case "bvugt":
		return mk("bvult", SBool, b, a)
	case "bvuge":
		return mk("bvule", SBool, b, a)
	case "bvsgt":
		return mk("bvslt", SBool, b, a)
	case "bvsge":
		return mk("bvsle", SBool, b, a)
	}
	return mk(op, SBool, a, b)
}

func Extract(hi, lo int, a *Term) *Term {
	w := a.Sort.Width()
	if lo == 0 && hi == w-1 {
		return a
	}
	if hi >= w || lo < 0 || hi < lo {
		panic(fmt.Sprintf("bad extract %d %d of width %d", hi, lo, w))
	}
	nw := hi - lo + 1
	if a.IsConst() {
		return BVConst(new(big.Int).Rsh(a.Val, uint(lo)), nw)
	}
	if a.Op == "zext" {
		iw := a.Args[0].Sort.Width()
		if hi < iw {
			return Extract(hi, lo, a.Args[0])
		}
		if lo >= iw {
			return BVc(0, nw)
		}
	}
	if a.Op == "sext" {
		iw := a.Args[0].Sort.Width()
		if hi < iw {
			return Extract(hi, lo, a.Args[0])
		}
	}
	if a.Op == "extract" {
		var h2, l2 int
		fmt.Sscanf(a.Name, "(_ extract %d %d)", &h2, &l2)
		return Extract(hi+l2, lo+l2, a.Args[0])
	}
	if a.Op == "concat" {
		lw := a.Args[1].Sort.Width()
		if hi < lw {
			return Extract(hi, lo, a.Args[1])
		}
		if lo >= lw {
			return Extract(hi-lw, lo-lw, a.Args[0])
		}
	}
	return mkN("extract", fmt.Sprintf("(_ extract %d %d)", hi, lo), BV(nw), a)
}

func ZeroExt(a *Term, to int) *Term {
	w := a.Sort.Width()
	if to == w {
		return a
	}
	if to < w {
		return Extract(to-1, 0, a)
	}
	if a.IsConst() {
		return BVConst(a.Val, to)
	}
	if a.Op == "zext" {
		return ZeroExt(a.Args[0], to)
	}
	return mkN("zext", fmt.Sprintf("(_ zero_extend %d)", to-w), BV(to), a)
}

func SignExt(a *Term, to int) *Term {
	w := a.Sort.Width()
	if to == w {
		return a
	}
	if to < w {
		return Extract(to-1, 0, a)
	}
	if a.IsConst() {
		return BVConst(toSigned(a.Val, w), to)
	}
	if a.Op == "zext" {
		// sign bit is zero
		return ZeroExt(a.Args[0], to)
	}
	return mkN("sext", fmt.Sprintf("(_ sign_extend %d)", to-w), BV(to), a)
}

func Concat(hi, lo *Term) *Term {
	if hi.IsConst() && lo.IsConst() {
		v := new(big.Int).Lsh(hi.Val, uint(lo.Sort.Width()))
		v.Or(v, lo.Val)
		return BVConst(v, hi.Sort.Width()+lo.Sort.Width())
	}
	return mk("concat", BV(hi.Sort.Width()+lo.Sort.Width()), hi, lo)
}

// ---------- Int ----------

func IntCmp(op string, a, b *Term) *Term {
	if a.IsConst() && b.IsConst() {
		c := a.Val.Cmp(b.Val)
		switch op {
		case "<":
			return BoolConst(c < 0)
		case "<=":
			return BoolConst(c <= 0)
		case ">":
			return BoolConst(c > 0)
		case ">=":
			return BoolConst(c >= 0)
		}
	}
	return mk(op, SBool, a, b)
}

// ---------- addresses ----------
// Addr = mkaddr(rg Int, pa Path); Path = pnil | fld(Path, Int) | elem(Path, BV64)

var PNil = mk("pnil", SPath)

func MkAddr(rg, pa *Term) *Term { return mk("mkaddr", SAddr, rg, pa) }

var NilAddr = MkAddr(IntConst(0), PNil)

func Rg(a *Term) *Term {
	if a.Op == "mkaddr" {
		return a.Args[0]
	}
	if a.Op == "ite" {
		return Ite(a.Args[0], Rg(a.Args[1]), Rg(a.Args[2]))
	}
	return mk("rg", SInt, a)
}
func Pa(a *Term) *Term {
	if a.Op == "mkaddr" {
		return a.Args[1]
	}
	if a.Op == "ite" {
		return Ite(a.Args[0], Pa(a.Args[1]), Pa(a.Args[2]))
	}
	return mk("pa", SPath, a)
}
func FldAddr(a *Term, k int) *Term {
	return MkAddr(Rg(a), mk("fld", SPath, Pa(a), IntConst(int64(k))))
}
func ElemAddr(a *Term, idx *Term) *Term {
	if idx.Sort != BV(64) {
		panic("elem index must be bv64")
	}
	return MkAddr(Rg(a), mk("elem", SPath, Pa(a), idx))
}

// regionUB records, for symbolic region variables, an upper bound on their
// value that has been *assumed* (added to the path assumptions by whoever
// created the variable).  Fresh allocations get concrete ids above it.
var regionUB = map[int]int64{}
var regionUBmu sync.Mutex

func SetRegionUB(v *Term, ub int64) {
	regionUBmu.Lock()
	regionUB[v.id] = ub
	regionUBmu.Unlock()
}
func getRegionUB(v *Term) (int64, bool) {
	regionUBmu.Lock()
	defer regionUBmu.Unlock()
	u, ok := regionUB[v.id]
	return u, ok
}

// rgDistinct: 1 = provably distinct, 0 = provably equal, -1 unknown
func rgCompare(a, b *Term) int {
	if a == b {
		return 0
	}
	if a.IsConst() && b.IsConst() {
		if a.Val.Cmp(b.Val) == 0 {
			return 0
		}
		return 1
	}
	if a.IsConst() && !b.IsConst() {
		a, b = b, a
	}
	if b.IsConst() {
		if ub, ok := getRegionUB(a); ok && b.Val.IsInt64() && b.Val.Int64() > ub {
			return 1
		}
	}
	return -1
}

func pathCompare(a, b *Term) int {
	if a == b {
		return 0
	}
	isCtor := func(t *Term) bool { return t.Op == "pnil" || t.Op == "fld" || t.Op == "elem" }
	if !isCtor(a) || !isCtor(b) {
		return -1
	}
	if a.Op != b.Op {
		return 1
	}
	if a.Op == "pnil" {
		return 0
	}
	// same ctor with args
	var ic int
	ia, ib := a.Args[1], b.Args[1]
	if ia == ib {
		ic = 0
	} else if ia.IsConst() && ib.IsConst() {
		ic = 1
	} else {
		ic = -1
		// x+c1 vs x+c2
		ba, ca := splitAddConst(ia)
		bb, cb := splitAddConst(ib)
		if ba == bb && ca.Cmp(cb) != 0 {
			ic = 1
		}
	}
	pc := pathCompare(a.Args[0], b.Args[0])
	if ic == 1 || pc == 1 {
		return 1
	}
	if ic == 0 && pc == 0 {
		return 0
	}
	return -1
}

func splitAddConst(t *Term) (*Term, *big.Int) {
	if t.Op == "bvadd" && t.Args[1].IsConst() {
		return t.Args[0], t.Args[1].Val
	}
	return t, big.NewInt(0)
}

// addrCompare: 1 distinct, 0 equal, -1 unknown
func addrCompare(a, b *Term) int {
	if a == b {
		return 0
	}
	if a.Op != "mkaddr" || b.Op != "mkaddr" {
		return -1
	}
	rc := rgCompare(a.Args[0], b.Args[0])
	pc := pathCompare(a.Args[1], b.Args[1])
	if rc == 1 || pc == 1 {
		return 1
	}
	if rc == 0 && pc == 0 {
		return 0
	}
	return -1
}

func addrEqSyntactic(a, b *Term) *Term {
	switch addrCompare(a, b) {
	case 0:
		return True
	case 1:
		return False
	}
	if a.Op == "mkaddr" && b.Op == "mkaddr" {
		// split
		rc := rgCompare(a.Args[0], b.Args[0])
		pc := pathCompare(a.Args[1], b.Args[1])
		if rc == 0 {
			return mkEqRaw(a.Args[1], b.Args[1])
		}
		if pc == 0 {
			return mkEqRaw(a.Args[0], b.Args[0])
		}
	}
	return nil
}

func mkEqRaw(a, b *Term) *Term {
	if a == b {
		return True
	}
	if a.Sort == SPath && a.Op == b.Op && (a.Op == "fld" || a.Op == "elem") {
		return And(mkEqRaw(a.Args[0], b.Args[0]), Eq(a.Args[1], b.Args[1]))
	}
	if a.Sort != SPath {
		return Eq(a, b)
	}
	if a.id > b.id {
		a, b = b, a
	}
	return mk("=", SBool, a, b)
}

// ---------- arrays ----------

// arrayFrames: array variables introduced by a bulk update (copy / havoc) of one region:
// outside that region they agree with the previous array (the defining axiom is in the
// path assumptions; this table lets the simplifier use it syntactically).
type arrayFrame struct {
	old *Term
	rg  *Term
}

var arrayFrames = map[int]arrayFrame{}
var arrayFramesMu sync.Mutex

func RegisterArrayFrame(newArr, oldArr, rg *Term) {
	arrayFramesMu.Lock()
	arrayFrames[newArr.id] = arrayFrame{oldArr, rg}
	arrayFramesMu.Unlock()
}

func Select(arr, idx *Term) *Term {
	_, el := arr.Sort.ArrayParts()
	for {
		if arr.Op == "var" && idx.Op == "mkaddr" {
			arrayFramesMu.Lock()
			fi, ok := arrayFrames[arr.id]
			arrayFramesMu.Unlock()
			if ok && rgCompare(idx.Args[0], fi.rg) == 1 {
				arr = fi.old
				continue
			}
		}
		if arr.Op != "store" {
			break
		}
		var c int
		if idx.Sort == SAddr {
			c = addrCompare(arr.Args[1], idx)
		} else {
			c = idxCompare(arr.Args[1], idx)
		}
		if c == 0 {
			return arr.Args[2]
		}
		if c == 1 {
			arr = arr.Args[0]
			continue
		}
		break
	}
	for false && arr.Op == "store" {
		var c int
		if idx.Sort == SAddr {
			c = addrCompare(arr.Args[1], idx)
		} else {
			c = idxCompare(arr.Args[1], idx)
		}
		if c == 0 {
			return arr.Args[2]
		}
		if c == 1 {
			arr = arr.Args[0]
			continue
		}
		break
	}
	if arr.Op == "constarr" {
		return arr.Args[0]
	}
	if arr.Op == "var" && idx.Op == "mkaddr" && idx.Args[0].IsConst() && idx.Args[0].Val.Sign() > 0 && strings.HasSuffix(arr.Name, "@0") {
		// memory allocated during this execution is zero-initialised: a read that
		// reaches the initial array at a freshly allocated region yields zero
		if z := zeroOf(el); z != nil {
			return z
		}
	}
	if arr.Op == "ite" {
		return Ite(arr.Args[0], Select(arr.Args[1], idx), Select(arr.Args[2], idx))
	}
	return mk("select", el, arr, idx)
}

func idxCompare(a, b *Term) int {
	if a == b {
		return 0
	}
	if a.IsConst() && b.IsConst() {
		return 1
	}
	ba, ca := splitAddConst(a)
	bb, cb := splitAddConst(b)
	if ba == bb && ca.Cmp(cb) != 0 {
		return 1
	}
	return -1
}

func Store(arr, idx, v *Term) *Term {
	_, el := arr.Sort.ArrayParts()
	if v.Sort != el {
		panic(fmt.Sprintf("store sort mismatch: array %s value %s", arr.Sort, v.Sort))
	}
	// overwrite of the same syntactic index
	if arr.Op == "store" {
		var c int
		if idx.Sort == SAddr {
			c = addrCompare(arr.Args[1], idx)
		} else {
			c = idxCompare(arr.Args[1], idx)
		}
		if c == 0 {
			return Store(arr.Args[0], idx, v)
		}
	}
	return mk("store", arr.Sort, arr, idx, v)
}

func ConstArray(s Sort, v *Term) *Term { return mk("constarr", s, v) }

// ---------- uninterpreted functions / misc ----------

func App(fname string, s Sort, args ...*Term) *Term {
	return mkN("app", fname, s, args...)
}

func Forall(vars []*Term, body *Term) *Term {
	if body.IsTrue() {
		return True
	}
	if !body.bound {
		return body
	}
	args := append([]*Term{body}, vars...)
	t := intern(&Term{Op: "forall", Sort: SBool, Args: args})
	// bound-ness: a closed quantified formula is not "bound" for lifting purposes
	// unless it mentions outer bound variables; we recompute conservatively.
	t.bound = containsOtherBound(body, vars)
	return t
}

// ForallPat: universally quantified formula with an instantiation pattern (trigger).
func ForallPat(vars []*Term, body *Term, pat *Term) *Term {
	if body.IsTrue() {
		return True
	}
	if !body.bound {
		return body
	}
	args := append([]*Term{body}, vars...)
	args = append(args, pat)
	t := intern(&Term{Op: "forall", Name: "pat", Sort: SBool, Args: args})
	t.bound = containsOtherBound(body, vars)
	return t
}

func quantVars(t *Term) []*Term {
	if t.Name == "pat" {
		return t.Args[1 : len(t.Args)-1]
	}
	return t.Args[1:]
}

func Exists(vars []*Term, body *Term) *Term {
	if !body.bound {
		return body
	}
	args := append([]*Term{body}, vars...)
	t := intern(&Term{Op: "exists", Sort: SBool, Args: args})
	t.bound = containsOtherBound(body, vars)
	return t
}

func containsOtherBound(t *Term, vars []*Term) bool {
	vs := map[int]bool{}
	for _, v := range vars {
		vs[v.id] = true
	}
	seen := map[int]bool{}
	var rec func(t *Term) bool
	rec = func(t *Term) bool {
		if !t.bound || seen[t.id] {
			return false
		}
		seen[t.id] = true
		if t.Op == "bvar" {
			return !vs[t.id]
		}
		if t.Op == "forall" || t.Op == "exists" {
			// inner quantifier: t.bound already says whether it has free bound vars
			// (relative to itself); check them against ours
			inner := map[int]bool{}
			for _, v := range quantVars(t) {
				inner[v.id] = true
			}
			return freeBoundNotIn(t.Args[0], vs, inner)
		}
		for _, a := range t.Args {
			if rec(a) {
				return true
			}
		}
		return false
	}
	return rec(t)
}

func freeBoundNotIn(t *Term, a, b map[int]bool) bool {
	seen := map[int]bool{}
	var rec func(t *Term) bool
	rec = func(t *Term) bool {
		if !t.bound || seen[t.id] {
			return false
		}
		seen[t.id] = true
		if t.Op == "bvar" {
			return !a[t.id] && !b[t.id]
		}
		if t.Op == "forall" || t.Op == "exists" {
			b2 := map[int]bool{}
			for k := range b {
				b2[k] = true
			}
			for _, v := range quantVars(t) {
				b2[v.id] = true
			}
			return freeBoundNotIn(t.Args[0], a, b2)
		}
		for _, x := range t.Args {
			if rec(x) {
				return true
			}
		}
		return false
	}
	return rec(t)
}

// ---------- substitution ----------

// Subst rebuilds t replacing (by identity) keys of m by their values,
// re-running the simplifying constructors.
func Subst(t *Term, m map[*Term]*Term) *Term {
	if len(m) == 0 {
		return t
	}
	memo := map[int]*Term{}
	var rec func(t *Term) *Term
	rec = func(t *Term) *Term {
		if r, ok := m[t]; ok {
			return r
		}
		if len(t.Args) == 0 {
			return t
		}
		if r, ok := memo[t.id]; ok {
			return r
		}
		args := make([]*Term, len(t.Args))
		changed := false
		for i, a := range t.Args {
			args[i] = rec(a)
			if args[i] != a {
				changed = true
			}
		}
		r := t
		if changed {
			r = Rebuild(t, args)
		}
		memo[t.id] = r
		return r
	}
	return rec(t)
}

// Rebuild re-applies the smart constructor for t.Op with new args.
func Rebuild(t *Term, args []*Term) *Term {
	switch t.Op {
	case "not":
		return Not(args[0])
	case "and":
		return And(args...)
	case "or":
		return Or(args...)
	case "=>":
		return Implies(args[0], args[1])
	case "ite":
		return Ite(args[0], args[1], args[2])
	case "=":
		if args[0].Sort == SPath {
			return mkEqRaw(args[0], args[1])
		}
		return Eq(args[0], args[1])
	case "bvadd", "bvsub", "bvmul", "bvand", "bvor", "bvxor", "bvshl", "bvlshr", "bvashr", "bvudiv", "bvurem", "bvsdiv", "bvsrem":
		return BVBin(t.Op, args[0], args[1])
	case "bvnot":
		return BVNot(args[0])
	case "bvneg":
		return BVNeg(args[0])
	case "bvult", "bvule", "bvugt", "bvuge", "bvslt", "bvsle", "bvsgt", "bvsge":
		return BVCmp(t.Op, args[0], args[1])
	case "extract":
		var hi, lo int
		fmt.Sscanf(t.Name, "(_ extract %d %d)", &hi, &lo)
		return Extract(hi, lo, args[0])
	case "zext":
		return ZeroExt(args[0], t.Sort.Width())
	case "sext":
		return SignExt(args[0], t.Sort.Width())
	case "concat":
		return Concat(args[0], args[1])
	case "select":
		return Select(args[0], args[1])
	case "store":
		return Store(args[0], args[1], args[2])
	case "mkaddr":
		return MkAddr(args[0], args[1])
	case "rg":
		return Rg(args[0])
	case "pa":
		return Pa(args[0])
	case "<", "<=", ">", ">=":
		return IntCmp(t.Op, args[0], args[1])
	case "forall":
		if t.Name == "pat" {
			return ForallPat(args[1:len(args)-1], args[0], args[len(args)-1])
		}
		return Forall(args[1:], args[0])
	case "exists":
		return Exists(args[1:], args[0])
	}
	return intern(&Term{Op: t.Op, Name: t.Name, Sort: t.Sort, Args: args, Val: t.Val})
}

// ---------- printing ----------

func (t *Term) Short() string {
	s := t.SMT()
	if len(s) > 200 {
		return s[:200] + "…"
	}
	return s
}

func smtName(n string) string {
	ok := true
	for _, c := range n {
		if !(c >= 'a' && c <= 'z' || c >= 'A' && c <= 'Z' || c >= '0' && c <= '9' || strings.ContainsRune("_.!$-", c)) {
			ok = false
		}
	}
	if ok && len(n) > 0 && !(n[0] >= '0' && n[0] <= '9') {
		return n
	}
	return "|" + strings.ReplaceAll(n, "|", "_") + "|"
}

func constSMT(t *Term) string {
	switch {
	case t.Sort == SBool:
		if t.Val.Sign() != 0 {
			return "true"
		}
		return "false"
	case t.Sort == SInt:
		if t.Val.Sign() < 0 {
			return "(- " + new(big.Int).Neg(t.Val).String() + ")"
		}
		return t.Val.String()
	case t.Sort.IsBV():
		w := t.Sort.Width()
		if w%4 == 0 {
			return fmt.Sprintf("#x%0*s", w/4, t.Val.Text(16))
		}
		return fmt.Sprintf("#b%0*s", w, t.Val.Text(2))
	}
	panic("const of sort " + string(t.Sort))
}

func opSMT(t *Term) string {
	switch t.Op {
	case "zext", "sext", "extract":
		return t.Name
	case "app":
		return smtName(t.Name)
	case "constarr":
		return "(as const " + string(t.Sort) + ")"
	case "fpfromint", "fptoint", "fptofp":
		return t.Name
	case "fpconst":
		return fpConstSMT(t)
	}
	return t.Op
}

// SMT prints the term as a tree (no sharing). For debugging / small terms.
func (t *Term) SMT() string {
	var sb strings.Builder
	var rec func(t *Term, depth int)
	rec = func(t *Term, depth int) {
		if depth > 60 {
			sb.WriteString("…")
			return
		}
		switch t.Op {
		case "const":
			sb.WriteString(constSMT(t))
			return
		case "var", "bvar":
			sb.WriteString(smtName(t.Name))
			return
		case "forall", "exists":
			sb.WriteString("(" + t.Op + " (")
			for _, v := range quantVars(t) {
				sb.WriteString("(" + smtName(v.Name) + " " + string(v.Sort) + ")")
			}
			sb.WriteString(") ")
			rec(t.Args[0], depth+1)
			sb.WriteString(")")
			return
		}
		if len(t.Args) == 0 {
			sb.WriteString(opSMT(t))
			return
		}
		sb.WriteString("(" + opSMT(t))
		for _, a := range t.Args {
			sb.WriteByte(' ')
			rec(a, depth+1)
		}
		sb.WriteByte(')')
	}
	rec(t, 0)
	return sb.String()
}

// Script builds an SMT-LIB script with DAG sharing through define-fun.
type Script struct {
	decls   []string
	defs    []string
	declSet map[string]bool
	named   map[int]string
	nDef    int
	ufs     map[string]string // uf name -> declaration
}

func NewScript() *Script {
	return &Script{declSet: map[string]bool{}, named: map[int]string{}, ufs: map[string]string{}}
}

// Ref returns the SMT text referring to t, emitting declarations/definitions as needed.
func (s *Script) Ref(t *Term) string {
	if n, ok := s.named[t.id]; ok {
		return n
	}
	switch t.Op {
	case "const":
		return constSMT(t)
	case "var":
		n := smtName(t.Name)
		if !s.declSet[n] {
			s.declSet[n] = true
			s.decls = append(s.decls, fmt.Sprintf("(declare-const %s %s)", n, t.Sort))
		}
		return n
	case "bvar":
		return smtName(t.Name)
	}
	var txt string
	switch t.Op {
	case "forall", "exists":
		var sb strings.Builder
		sb.WriteString("(" + t.Op + " (")
		for _, v := range quantVars(t) {
			sb.WriteString("(" + smtName(v.Name) + " " + string(v.Sort) + ")")
		}
		sb.WriteString(") ")
		if t.Name == "pat" {
			sb.WriteString("(! " + s.Ref(t.Args[0]) + " :pattern (" + s.Ref(t.Args[len(t.Args)-1]) + "))")
		} else {
			sb.WriteString(s.Ref(t.Args[0]))
		}
		sb.WriteString(")")
		txt = sb.String()
	default:
		if t.Op == "app" {
			n := smtName(t.Name)
			if _, ok := s.ufs[n]; !ok {
				var as []string
				for _, a := range t.Args {
					as = append(as, string(a.Sort))
				}
				s.ufs[n] = fmt.Sprintf("(declare-fun %s (%s) %s)", n, strings.Join(as, " "), t.Sort)
			}
		}
		if len(t.Args) == 0 {
			txt = opSMT(t)
		} else {
			var sb strings.Builder
			sb.WriteString("(" + opSMT(t))
			for _, a := range t.Args {
				sb.WriteByte(' ')
				sb.WriteString(s.Ref(a))
			}
			sb.WriteByte(')')
			txt = sb.String()
		}
	}
	if t.bound || len(t.Args) == 0 || t.size < 4 {
		return txt
	}
	s.nDef++
	n := fmt.Sprintf("$t%d", s.nDef)
	s.defs = append(s.defs, fmt.Sprintf("(define-fun %s () %s %s)", n, t.Sort, txt))
	s.named[t.id] = n
	return n
}

const smtPrelude = `(declare-sort ByteSeq 0)
(declare-fun seq_empty () ByteSeq)
(declare-datatypes ((Path 0)) (((pnil) (fld (fbase Path) (fidx Int)) (elem (ebase Path) (eidx (_ BitVec 64))))))
(declare-datatypes ((Addr 0)) (((mkaddr (rg Int) (pa Path)))))
`

// Render: full script. specDecls = text of spec library pieces (already SMT).
// predeclared = UF names declared by the spec library (not to be re-declared).
func (s *Script) Render(logic string, specText string, predeclared map[string]bool, asserts []string, tail string) string {
	var sb strings.Builder
	if logic != "" {
		sb.WriteString("(set-logic " + logic + ")\n")
	}
	sb.WriteString(smtPrelude)
	sb.WriteString(specText)
	var ufn []string
	for n := range s.ufs {
		if !predeclared[n] {
			ufn = append(ufn, n)
		}
	}
	sort.Strings(ufn)
	for _, n := range ufn {
		sb.WriteString(s.ufs[n] + "\n")
	}
	// declarations and definitions must be interleaved in creation order:
	// decls only introduce constants, so all decls first is fine.
	for _, d := range s.decls {
		sb.WriteString(d + "\n")
	}
	for _, d := range s.defs {
		sb.WriteString(d + "\n")
	}
	for _, a := range asserts {
		sb.WriteString("(assert " + a + ")\n")
	}
	sb.WriteString(tail)
	return sb.String()
}

func zeroOf(s Sort) *Term {
	switch {
	case s == SBool:
		return False
	case s.IsBV():
		return BVc(0, s.Width())
	case s == SAddr:
		return NilAddr
	case s == SF64:
		return FPConstBits(0, 64)
	case s == SF32:
		return FPConstBits(0, 32)
	}
	return nil
}
