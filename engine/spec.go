package main

// Contract language: parser (Pratt) for the expression language and the
// clause-level parser for //@ comment files.

import (
	"fmt"
	"math/big"
	"os"
	"strings"
	"unicode"
)

type Node struct {
	Kind string // num, str, ident, unary, binary, call, index, slice, sel, forall, exists, paren
	Op   string
	Name string
	Args []*Node
	Val  *big.Int
	// quantifier binders
	Binders []Binder
	Pos     int
}

type Binder struct{ Name, Type string }

type stok struct {
	kind string // num, ident, str, op, eof
	text string
	pos  int
}

func lexSpec(s string) ([]stok, error) {
	var toks []stok
	i := 0
	ops := []string{"<==>", "==>", "&&", "||", "==", "!=", "<=", ">=", "<<", ">>", "&^", "::", "+", "-", "*", "/", "%", "&", "|", "^", "<", ">", "!", "(", ")", "[", "]", ",", ".", ":", "{", "}"}
	for i < len(s) {
		c := s[i]
		if c == ' ' || c == '\t' || c == '\n' || c == '\r' {
			i++
			continue
		}
		if c == '/' && i+1 < len(s) && s[i+1] == '/' {
			for i < len(s) && s[i] != '\n' {
				i++
			}
			continue
		}
		if unicode.IsDigit(rune(c)) {
			j := i
			for j < len(s) && (unicode.IsDigit(rune(s[j])) || unicode.IsLetter(rune(s[j])) || s[j] == '_') {
				j++
			}
			toks = append(toks, stok{"num", s[i:j], i})
			i = j
			continue
		}
		if unicode.IsLetter(rune(c)) || c == '_' || c == '$' {
			j := i
			for j < len(s) && (unicode.IsDigit(rune(s[j])) || unicode.IsLetter(rune(s[j])) || s[j] == '_' || s[j] == '$') {
				j++
			}
			toks = append(toks, stok{"ident", s[i:j], i})
			i = j
			continue
		}
		if c == '"' {
			j := i + 1
			for j < len(s) && s[j] != '"' {
				if s[j] == '\\' {
					j++
				}
				j++
			}
			if j >= len(s) {
				return nil, fmt.Errorf("unterminated string at %d", i)
			}
			toks = append(toks, stok{"str", s[i+1 : j], i})
			i = j + 1
			continue
		}
		matched := false
		for _, op := range ops {
			if strings.HasPrefix(s[i:], op) {
				toks = append(toks, stok{"op", op, i})
				i += len(op)
				matched = true
				break
			}
		}
		if !matched {
			return nil, fmt.Errorf("unexpected character %q at %d in %q", c, i, s)
		}
	}
	toks = append(toks, stok{"eof", "", len(s)})
	return toks, nil
}

type specParser struct {
	toks []stok
	p    int
	src  string
}

func (p *specParser) peek() stok { return p.toks[p.p] }
func (p *specParser) next() stok { t := p.toks[p.p]; p.p++; return t }
func (p *specParser) accept(op string) bool {
	if p.peek().kind == "op" && p.peek().text == op {
		p.p++
		return true
	}
	return false
}
func (p *specParser) expect(op string) {
	if !p.accept(op) {
		panic(fmt.Errorf("expected %q at %d in %q (got %q)", op, p.peek().pos, p.src, p.peek().text))
	}
}

var binPrec = map[string]int{
	"<==>": 1, "==>": 2, "||": 3, "&&": 4,
	"==": 5, "!=": 5, "<": 5, "<=": 5, ">": 5, ">=": 5,
	"+": 6, "-": 6, "|": 6, "^": 6,
	"*": 7, "/": 7, "%": 7, "<<": 7, ">>": 7, "&": 7, "&^": 7,
}

func ParseSpecExpr(s string) (n *Node, err error) {
	defer func() {
		if r := recover(); r != nil {
			if e, ok := r.(error); ok {
				err = e
				return
			}
			panic(r)
		}
	}()
	toks, err := lexSpec(s)
	if err != nil {
		return nil, err
	}
	p := &specParser{toks: toks, src: s}
	n = p.expr(0)
	if p.peek().kind != "eof" {
		return nil, fmt.Errorf("trailing input at %d in %q", p.peek().pos, s)
	}
	return n, nil
}

func (p *specParser) expr(minPrec int) *Node {
	lhs := p.unary()
	for {
		t := p.peek()
		if t.kind != "op" {
			break
		}
		prec, ok := binPrec[t.text]
		if !ok || prec < minPrec {
			break
		}
		p.next()
		var rhs *Node
		if t.text == "==>" || t.text == "<==>" {
			rhs = p.expr(prec) // right assoc
		} else {
			rhs = p.expr(prec + 1)
		}
		lhs = &Node{Kind: "binary", Op: t.text, Args: []*Node{lhs, rhs}, Pos: t.pos}
	}
	return lhs
}

func (p *specParser) unary() *Node {
	t := p.peek()
	if t.kind == "op" {
		switch t.text {
		case "!", "-", "^", "*", "&":
			p.next()
			x := p.unary()
			return &Node{Kind: "unary", Op: t.text, Args: []*Node{x}, Pos: t.pos}
		}
	}
	if t.kind == "ident" && (t.text == "forall" || t.text == "exists") {
		p.next()
		n := &Node{Kind: t.text, Pos: t.pos}
		for {
			name := p.next()
			if name.kind != "ident" {
				panic(fmt.Errorf("binder name expected at %d in %q", name.pos, p.src))
			}
			typ := "int"
			if p.peek().kind == "ident" {
				typ = p.next().text
			}
			n.Binders = append(n.Binders, Binder{name.text, typ})
			if !p.accept(",") {
				break
			}
		}
		p.expect("::")
		n.Args = []*Node{p.expr(0)}
		return n
	}
	return p.postfix(p.primary())
}

func (p *specParser) primary() *Node {
	t := p.next()
	switch t.kind {
	case "num":
		v, ok := new(big.Int).SetString(strings.ReplaceAll(t.text, "_", ""), 0)
		if !ok {
			panic(fmt.Errorf("bad number %q in %q", t.text, p.src))
		}
		return &Node{Kind: "num", Val: v, Pos: t.pos}
	case "str":
		return &Node{Kind: "str", Name: t.text, Pos: t.pos}
	case "ident":
		return &Node{Kind: "ident", Name: t.text, Pos: t.pos}
	case "op":
		if t.text == "(" {
			e := p.expr(0)
			p.expect(")")
			return &Node{Kind: "paren", Args: []*Node{e}, Pos: t.pos}
		}
	}
	panic(fmt.Errorf("unexpected stok %q at %d in %q", t.text, t.pos, p.src))
}

func (p *specParser) postfix(n *Node) *Node {
	for {
		switch {
		case p.accept("."):
			id := p.next()
			if id.kind != "ident" {
				panic(fmt.Errorf("field name expected at %d in %q", id.pos, p.src))
			}
			n = &Node{Kind: "sel", Name: id.text, Args: []*Node{n}, Pos: id.pos}
		case p.accept("("):
			c := &Node{Kind: "call", Args: []*Node{n}, Pos: n.Pos}
			if !p.accept(")") {
				for {
					c.Args = append(c.Args, p.expr(0))
					if !p.accept(",") {
						break
					}
				}
				p.expect(")")
			}
			n = c
		case p.accept("["):
			var lo, hi *Node
			if p.peek().kind == "op" && p.peek().text == ":" {
				p.next()
				if !(p.peek().kind == "op" && p.peek().text == "]") {
					hi = p.expr(0)
				}
				p.expect("]")
				n = &Node{Kind: "slice", Args: []*Node{n, lo, hi}, Pos: n.Pos}
				continue
			}
			lo = p.expr(0)
			if p.accept(":") {
				if !(p.peek().kind == "op" && p.peek().text == "]") {
					hi = p.expr(0)
				}
				p.expect("]")
				n = &Node{Kind: "slice", Args: []*Node{n, lo, hi}, Pos: n.Pos}
				continue
			}
			p.expect("]")
			n = &Node{Kind: "index", Args: []*Node{n, lo}, Pos: n.Pos}
		default:
			return n
		}
	}
}

// ---------- contract files ----------

type Clause struct {
	Label string
	Text  string
	Expr  *Node
	Props []string // properties this clause serves (empty: the function's props)
}

type LoopSpec struct {
	Invariants []Clause
	Steps      []Clause // relation between the state at the head of an iteration (prev(e)) and at its back edge
	Decreases  *Clause
	Modifies   []string
	Unroll     bool
}

type Contract struct {
	Fn         string // as written after "func"
	File       string
	Requires   []Clause
	Ensures    []Clause
	Modifies   []string // raw mod specs; nil slice + HasModifies=false => "modifies nothing" must be proved
	HasMod     bool
	Loops      map[int]*LoopSpec
	Inline     bool
	CallGhosts map[string]map[string]*Node // witnesses for ghost parameters of callees: `call f: g = expr, ...`
	Inlines    []string                    // callees (substring of their short name) whose bodies are inlined in this function even if they have a contract
	Trusted    bool                        // contract is assumed, body not verified (external / out of subset); listed in evidence
	Nullable   map[string]bool
	Props      []string // property ids this contract serves
	Lets       []Clause // let name = expr (Label = name)
	Ghost      []Binder
	NoPanic    bool
	Cases      []*Contract
	TrustWhy   string
	AllowPanic bool
	Uses       []string // global invariants assumed at entry and proved at exit
	Merge      bool     // use state merging from the start (many symmetric paths)
	Maintains  []string // global invariants assumed at entry AND re-proved at exit (functions that write the global)
}

type SpecMacro struct {
	Name   string
	Params []string
	Body   *Node
	Text   string
}

type ImmutableDecl struct {
	Global  string
	pkgPath string
}

type ContractFile struct {
	Contracts  []*Contract
	Macros     map[string]*SpecMacro
	Protects   map[string][]string
	Immutables []ImmutableDecl
	Mutables   []MutableDecl
	GInvs      map[string]*GInv
	curPkg     string
}

var clauseKeywords = map[string]bool{"func": true, "requires": true, "ensures": true, "modifies": true, "loop": true,
	"inline": true, "trusted": true, "nullable": true, "props": true, "spec": true, "let": true, "ghost": true,
	"immutable": true, "protects": true, "allowpanic": true, "mutable": true, "ginv": true, "uses": true, "merge": true, "maintains": true, "inlines": true, "call": true}

func ParseContractFile(path string, into *ContractFile) error {
	data, err := os.ReadFile(path)
	if err != nil {
		return err
	}
	var clauses []string
	for _, line := range strings.Split(string(data), "\n") {
		line = strings.TrimSpace(line)
		if !strings.HasPrefix(line, "//@") {
			continue
		}
		body := strings.TrimSpace(strings.TrimPrefix(line, "//@"))
		if body == "" {
			continue
		}
		if strings.HasPrefix(body, "#") {
			continue
		}
		first := body
		if i := strings.IndexAny(body, " \t("); i >= 0 {
			first = body[:i]
		}
		if clauseKeywords[first] {
			clauses = append(clauses, body)
		} else if len(clauses) > 0 {
			clauses[len(clauses)-1] += " " + body
		} else {
			return fmt.Errorf("%s: stray contract line %q", path, body)
		}
	}
	var cur *Contract
	for _, c := range clauses {
		kw := c
		rest := ""
		if i := strings.IndexAny(c, " \t"); i >= 0 {
			kw, rest = c[:i], strings.TrimSpace(c[i+1:])
		}
		parse := func(s string) (Clause, error) {
			label := ""
			if m := labelRe(s); m != "" {
				label = m
				s = strings.TrimSpace(s[len(m)+1:])
			}
			n, err := ParseSpecExpr(s)
			if err != nil {
				return Clause{}, fmt.Errorf("%s: in %q: %v", path, s, err)
			}
			var props []string
			if i := strings.Index(label, "/"); i >= 0 {
				props = strings.Split(label[:i], ",")
				label = label[i+1:]
			}
			return Clause{Label: label, Text: s, Expr: n, Props: props}, nil
		}
		switch kw {
		case "func":
			cur = &Contract{Fn: rest, File: path, Loops: map[int]*LoopSpec{}, Nullable: map[string]bool{}}
			into.Contracts = append(into.Contracts, cur)
		case "spec":
			// spec name(a,b) = expr
			eq := strings.Index(rest, "=")
			if eq < 0 {
				return fmt.Errorf("%s: bad spec %q", path, rest)
			}
			head := strings.TrimSpace(rest[:eq])
			lp := strings.Index(head, "(")
			name := head
			var params []string
			if lp >= 0 {
				name = strings.TrimSpace(head[:lp])
				ps := strings.TrimSuffix(strings.TrimSpace(head[lp+1:]), ")")
				for _, p := range strings.Split(ps, ",") {
					if p = strings.TrimSpace(p); p != "" {
						params = append(params, p)
					}
				}
			}
			// careful: '=' search must skip '==' : find first '=' not followed/preceded by '=' etc.
			body := strings.TrimSpace(rest[eq+1:])
			n, err := ParseSpecExpr(body)
			if err != nil {
				return fmt.Errorf("%s: spec %s: %v", path, name, err)
			}
			into.Macros[name] = &SpecMacro{Name: name, Params: params, Body: n, Text: body}
		case "immutable":
			for _, g := range strings.Fields(strings.ReplaceAll(rest, ",", " ")) {
				into.Immutables = append(into.Immutables, ImmutableDecl{Global: g, pkgPath: into.curPkg})
			}
		case "mutable":
			d, err := parseMutableDecl(rest)
			if err != nil {
				return fmt.Errorf("%s: %v", path, err)
			}
			d.pkgPath = into.curPkg
			into.Mutables = append(into.Mutables, d)
		case "ginv":
			cl, err := parse(rest)
			if err != nil {
				return err
			}
			into.GInvs[cl.Label] = &GInv{Name: cl.Label, Clause: cl, pkgPath: into.curPkg}
		case "protects":
			parts := strings.SplitN(rest, ":", 2)
			if len(parts) == 2 {
				into.Protects[strings.TrimSpace(parts[0])] = strings.Fields(strings.ReplaceAll(parts[1], ",", " "))
			}
		default:
			if cur == nil {
				return fmt.Errorf("%s: clause %q outside func", path, c)
			}
			switch kw {
			case "requires":
				cl, err := parse(rest)
				if err != nil {
					return err
				}
				cur.Requires = append(cur.Requires, cl)
			case "ensures":
				cl, err := parse(rest)
				if err != nil {
					return err
				}
				if cl.Label == "" {
					cl.Label = fmt.Sprintf("post%d", len(cur.Ensures)+1)
				}
				cur.Ensures = append(cur.Ensures, cl)
			case "let":
				eq := strings.Index(rest, "=")
				name := strings.TrimSpace(rest[:eq])
				n, err := ParseSpecExpr(strings.TrimSpace(rest[eq+1:]))
				if err != nil {
					return fmt.Errorf("%s: let %s: %v", path, name, err)
				}
				cur.Lets = append(cur.Lets, Clause{Label: name, Expr: n, Text: rest})
			case "ghost":
				for _, g := range strings.Split(rest, ",") {
					f := strings.Fields(g)
					if len(f) == 2 {
						cur.Ghost = append(cur.Ghost, Binder{f[0], f[1]})
					}
				}
			case "modifies":
				cur.HasMod = true
				if rest != "nothing" {
					cur.Modifies = append(cur.Modifies, splitTop(rest)...)
				}
			case "uses":
				cur.Uses = append(cur.Uses, strings.Fields(strings.ReplaceAll(rest, ",", " "))...)
			case "maintains":
				cur.Maintains = append(cur.Maintains, strings.Fields(strings.ReplaceAll(rest, ",", " "))...)
			case "merge":
				cur.Merge = true
			case "inline":
				cur.Inline = true
			case "inlines":
				cur.Inlines = append(cur.Inlines, strings.Fields(rest)...)
			case "call":
				// call callee: ghost = expr, ghost2 = expr   (witnesses the caller supplies for the callee's ghost parameters)
				colon := strings.Index(rest, ":")
				if colon < 0 {
					return fmt.Errorf("%s: bad call clause %q", path, c)
				}
				callee := strings.TrimSpace(rest[:colon])
				if cur.CallGhosts == nil {
					cur.CallGhosts = map[string]map[string]*Node{}
				}
				m := map[string]*Node{}
				for _, part := range splitTop(rest[colon+1:]) {
					eq := strings.Index(part, "=")
					if eq < 0 {
						return fmt.Errorf("%s: bad call clause %q", path, c)
					}
					n, err := ParseSpecExpr(strings.TrimSpace(part[eq+1:]))
					if err != nil {
						return fmt.Errorf("%s: call clause %q: %v", path, c, err)
					}
					m[strings.TrimSpace(part[:eq])] = n
				}
				cur.CallGhosts[callee] = m
			case "allowpanic":
				cur.AllowPanic = true
			case "trusted":
				cur.Trusted = true
				cur.TrustWhy = rest
			case "nullable":
				for _, n := range strings.Fields(strings.ReplaceAll(rest, ",", " ")) {
					cur.Nullable[n] = true
				}
			case "props":
				cur.Props = append(cur.Props, strings.Fields(strings.ReplaceAll(rest, ",", " "))...)
			case "loop":
				// loop N: invariant expr | loop N: unroll | loop N: decreases expr | loop N: modifies ...
				colon := strings.Index(rest, ":")
				var n int
				fmt.Sscanf(strings.TrimSpace(rest[:colon]), "%d", &n)
				body := strings.TrimSpace(rest[colon+1:])
				ls := cur.Loops[n]
				if ls == nil {
					ls = &LoopSpec{}
					cur.Loops[n] = ls
				}
				k2, r2 := body, ""
				if i := strings.IndexAny(body, " \t"); i >= 0 {
					k2, r2 = body[:i], strings.TrimSpace(body[i+1:])
				}
				switch k2 {
				case "invariant":
					cl, err := parse(r2)
					if err != nil {
						return err
					}
					if cl.Label == "" {
						cl.Label = fmt.Sprintf("inv%d", len(ls.Invariants)+1)
					}
					ls.Invariants = append(ls.Invariants, cl)
				case "step":
					cl, err := parse(r2)
					if err != nil {
						return err
					}
					if cl.Label == "" {
						cl.Label = fmt.Sprintf("step%d", len(ls.Steps)+1)
					}
					ls.Steps = append(ls.Steps, cl)
				case "decreases":
					cl, err := parse(r2)
					if err != nil {
						return err
					}
					ls.Decreases = &cl
				case "modifies":
					ls.Modifies = append(ls.Modifies, splitTop(r2)...)
				case "unroll":
					ls.Unroll = true
				default:
					return fmt.Errorf("%s: bad loop clause %q", path, c)
				}
			}
		}
	}
	return nil
}

// labelRe: returns the label if s starts with "label:" (identifier chars and '-') not followed by ':'.
func labelRe(s string) string {
	i := 0
	for i < len(s) && (unicode.IsLetter(rune(s[i])) || unicode.IsDigit(rune(s[i])) || s[i] == '-' || s[i] == '_' || s[i] == ',' || s[i] == '/') {
		i++
	}
	if i == 0 || i >= len(s) || s[i] != ':' {
		return ""
	}
	if i+1 < len(s) && s[i+1] == ':' {
		return ""
	}
	if s[:i] == "forall" || s[:i] == "exists" {
		return ""
	}
	return s[:i]
}

// splitTop splits on commas that are not inside parentheses / brackets / strings.
func splitTop(s string) []string {
	var out []string
	depth, start, inStr := 0, 0, false
	for i := 0; i < len(s); i++ {
		c := s[i]
		switch {
		case c == '"':
			inStr = !inStr
		case inStr:
		case c == '(' || c == '[':
			depth++
		case c == ')' || c == ']':
			depth--
		case c == ',' && depth == 0:
			out = append(out, strings.TrimSpace(s[start:i]))
			start = i + 1
		}
	}
	if t := strings.TrimSpace(s[start:]); t != "" {
		out = append(out, t)
	}
	return out
}
