package main

import (
	"flag"
	"fmt"
	"os"
	"regexp"
	"sort"
	"strings"
	"time"

	"golang.org/x/tools/go/ssa"
)

func sortStrings(s []string) { sort.Strings(s) }

func main() {
	if len(os.Args) < 2 {
		fmt.Println("usage: gov <verify|check|list|replay|selftest> ...")
		os.Exit(2)
	}
	switch os.Args[1] {
	case "verify":
		cmdVerify(os.Args[2:])
	case "check":
		cmdCheck(os.Args[2:])
	case "version":
		fmt.Println("gov 0.1 (contract-based deductive verifier for Go over go/ssa)")
	case "replay":
		cmdReplay(os.Args[2:])
	default:
		fmt.Println("unknown command", os.Args[1])
		os.Exit(2)
	}
}

func cmdVerify(args []string) {
	fs := flag.NewFlagSet("verify", flag.ExitOnError)
	repo := fs.String("repo", "/repo", "repository")
	pat := fs.String("fn", "", "regexp on function names")
	pkgs := fs.String("pkgs", "./...", "package patterns (comma separated)")
	timeout := fs.Int("t", 10, "solver timeout (s)")
	dump := fs.String("dump", "", "dump SMT scripts to dir")
	verbose := fs.Bool("v", false, "verbose")
	thorough := fs.Bool("thorough", false, "include slow_ clauses")
	fs.Parse(args)
	eng, err := LoadEngine(*repo, strings.Split(*pkgs, ","))
	if eng != nil {
		eng.thorough = *thorough
	}
	if err != nil {
		fmt.Println("ENGINE-LOAD", err)
		os.Exit(2)
	}
	if err := eng.LoadContracts(); err != nil {
		fmt.Println("ENGINE-CONTRACTS", err)
		os.Exit(2)
	}
	fmt.Printf("loaded in %v, %d functions, %d contracts\n", eng.loadTime, len(eng.allFuncs), len(eng.byFn))
	re := regexp.MustCompile(*pat)
	var fns []*ssa.Function
	for n, f := range eng.allFuncs {
		if f.Blocks != nil && re.MatchString(n) && strings.Contains(n, modPath) && f.Synthetic == "" {
			fns = append(fns, f)
		}
	}
	sort.Slice(fns, func(i, j int) bool { return fns[i].String() < fns[j].String() })
	bad := 0
	for _, fn := range fns {
		t0 := time.Now()
		rep := eng.VerifyFunction(fn)
		res := DischargeAll(rep.Obls, *timeout, 0, 16, *dump)
		nok := 0
		for _, d := range res {
			if d.Res.Status == "unsat" {
				nok++
			}
		}
		fmt.Printf("%-70s paths=%d obls=%d ok=%d trivial=%d failed=%d  %v\n", rep.Fn, rep.Paths, len(rep.Obls), nok, rep.Trivial, len(rep.Failed), time.Since(t0).Round(time.Millisecond))
		for _, f := range rep.Failed {
			fmt.Println("    TOOL:", f)
			bad++
		}
		for _, d := range res {
			if d.Res.Status != "unsat" {
				bad++
				fmt.Printf("    %s %s [%s] %s\n", strings.ToUpper(d.Res.Status), d.Obl.Label, d.Obl.Where, strings.Join(d.Res.Tried, ","))
				if *verbose {
					fmt.Println("      goal:", d.Obl.Goal.Short())
					if d.Res.Model != nil {
						var ks []string
						for k := range d.Res.Model {
							ks = append(ks, k)
						}
						sort.Strings(ks)
						for _, k := range ks {
							fmt.Printf("      %s = %s\n", k, d.Res.Model[k])
						}
					} else {
						fmt.Println("      out:", firstLines(d.Res.Output, 4))
					}
				}
			}
		}
		if *verbose {
			fmt.Println("    inlined:", rep.Inlined)
			fmt.Println("    contracts:", rep.UsedCtr, "intrinsics:", rep.Intrinsic)
		}
	}
	if bad > 0 {
		os.Exit(1)
	}
}
