package main

// State merging at immediate post-dominators (if-conversion of diamonds),
// to avoid path explosion from branches inside unrolled loops.

import (
	"golang.org/x/tools/go/ssa"
)

var ipdomCache = map[*ssa.Function]map[*ssa.BasicBlock]*ssa.BasicBlock{}

// ipdoms computes immediate post-dominators (nil = virtual exit).
func ipdoms(fn *ssa.Function) map[*ssa.BasicBlock]*ssa.BasicBlock {
	if m, ok := ipdomCache[fn]; ok {
		return m
	}
	n := len(fn.Blocks)
	// postdom sets as bitsets over n+1 nodes (n = virtual exit)
	full := make([]bool, n+1)
	for i := range full {
		full[i] = true
	}
	pd := make([][]bool, n+1)
	for i := 0; i <= n; i++ {
		pd[i] = append([]bool{}, full...)
	}
	exit := make([]bool, n+1)
	exit[n] = true
	pd[n] = exit
	succs := func(b *ssa.BasicBlock) []int {
		if len(b.Succs) == 0 {
			return []int{n}
		}
		var out []int
		for _, s := range b.Succs {
			out = append(out, s.Index)
		}
		return out
	}
	changed := true
	for changed {
		changed = false
		for i := n - 1; i >= 0; i-- {
			b := fn.Blocks[i]
			nw := append([]bool{}, full...)
			for _, s := range succs(b) {
				for k := 0; k <= n; k++ {
					nw[k] = nw[k] && pd[s][k]
				}
			}
			nw[i] = true
			for k := 0; k <= n; k++ {
				if nw[k] != pd[i][k] {
					changed = true
				}
			}
			pd[i] = nw
		}
	}
	res := map[*ssa.BasicBlock]*ssa.BasicBlock{}
	for i := 0; i < n; i++ {
		// ipdom = the strict post-dominator that is post-dominated by all other strict post-dominators
		var cands []int
		for k := 0; k <= n; k++ {
			if k != i && pd[i][k] {
				cands = append(cands, k)
			}
		}
		best := -1
		for _, c := range cands {
			ok := true
			for _, d := range cands {
				if d != c && !pd[c][d] {
					ok = false
					break
				}
			}
			if ok {
				best = c
				break
			}
		}
		if best >= 0 && best < n {
			res[fn.Blocks[i]] = fn.Blocks[best]
		}
	}
	ipdomCache[fn] = res
	return res
}

type arrival struct {
	st   *State
	fr   *Frame
	prev *ssa.BasicBlock
}

func (ex *Exec) forkAndMerge(fr *Frame, b *ssa.BasicBlock, c *Term, J *ssa.BasicBlock, st *State, visits map[*ssa.BasicBlock]int) {
	baseLen := len(st.assumes)
	var arrs []arrival
	outerStop, outerK := fr.stopAt, fr.stopK
	for k := 0; k < 2; k++ {
		cond := c
		if k == 1 {
			cond = Not(c)
		}
		stk := st.Clone()
		stk.AssumeCond(cond)
		feas := ex.eng.feasible
		if visits[b] > 3 {
			feas = ex.eng.feasibleSolver
		}
		if !feas(stk) {
			continue
		}
		frk := fr.fork()
		frk.stopAt = J
		frk.stopK = func(st2 *State, fr2 *Frame, prev *ssa.BasicBlock) {
			arrs = append(arrs, arrival{st2, fr2, prev})
		}
		vk := copyVisits(visits)
		succ := b.Succs[k]
		ex.guard(func() { ex.runBlock(frk, succ, b, stk, vk) })
	}
	if len(arrs) == 0 {
		return
	}
	resume := func(a arrival) {
		a.fr.stopAt, a.fr.stopK = outerStop, outerK
		ex.runBlock(a.fr, J, a.prev, a.st, visits)
	}
	if len(arrs) == 1 {
		resume(arrs[0])
		return
	}
	merged, ok := ex.mergeArrivals(arrs, J, st, baseLen)
	if !ok {
		for _, a := range arrs {
			a := a
			v := copyVisits(visits)
			ex.guard(func() {
				a.fr.stopAt, a.fr.stopK = outerStop, outerK
				ex.runBlock(a.fr, J, a.prev, a.st, v)
			})
		}
		return
	}
	merged.fr.stopAt, merged.fr.stopK = outerStop, outerK
	ex.merges++
	if visits[nil] > 0 {
		visits[nil]-- // a merged diamond does not lengthen the path
	}
	// continue at J with phis already bound
	ex.runBlockNoPhi(merged.fr, J, merged.st, visits)
}

func (ex *Exec) mergeArrivals(arrs []arrival, J *ssa.BasicBlock, pre *State, baseLen int) (res arrival, ok bool) {
	defer func() {
		if r := recover(); r != nil {
			if _, isAbort := r.(abortPath); isAbort {
				ok = false
				return
			}
			if _, isAbort := r.(abortAll); isAbort {
				panic(r)
			}
			// IteValue shape mismatches etc.
			ok = false
		}
	}()
	var guards []*Term
	for _, a := range arrs {
		if len(a.st.assumes) < baseLen {
			return res, false
		}
		guards = append(guards, And(a.st.assumes[baseLen:]...))
	}
	base := arrs[0]
	st := base.st.Clone()
	st.assumes = append(append([]*Term{}, pre.assumes[:baseLen]...), Or(guards...))
	st.subst = pre.subst
	// memory
	sorts := map[Sort]bool{}
	for _, a := range arrs {
		for s := range a.st.mem.arrs {
			sorts[s] = true
		}
	}
	for s := range sorts {
		m := arrs[len(arrs)-1].st.mem.arr(s, st.memGen)
		for i := len(arrs) - 2; i >= 0; i-- {
			m = Ite(guards[i], arrs[i].st.mem.arr(s, st.memGen), m)
		}
		st.mem.arrs[s] = m
	}
	// region counter, map keys
	for _, a := range arrs[1:] {
		st.foreign = append(st.foreign, a.st.foreign...)
	}
	for _, a := range arrs {
		if *a.st.nextRg > *st.nextRg {
			*st.nextRg = *a.st.nextRg
		}
		for id, ks := range a.st.mapKeys {
			for _, k := range ks {
				dup := false
				for _, e := range st.mapKeys[id] {
					if e == k {
						dup = true
					}
				}
				if !dup {
					st.mapKeys[id] = append(st.mapKeys[id], k)
				}
			}
		}
	}
	fr := base.fr.fork()
	// defers must agree
	for _, a := range arrs {
		if len(a.fr.defers) != len(fr.defers) {
			return res, false
		}
	}
	// phis at J
	for _, in := range J.Instrs {
		phi, isPhi := in.(*ssa.Phi)
		if !isPhi {
			break
		}
		var vals []Value
		for _, a := range arrs {
			idx := -1
			for i, p := range J.Preds {
				if p == a.prev {
					idx = i
				}
			}
			if idx < 0 {
				return res, false
			}
			vals = append(vals, ex.get(a.fr, phi.Edges[idx]))
		}
		v := vals[len(vals)-1]
		for i := len(vals) - 2; i >= 0; i-- {
			v = IteValue(guards[i], vals[i], v)
		}
		fr.regs[phi] = v
	}
	return arrival{st: st, fr: fr}, true
}
