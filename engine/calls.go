package main

import (
	"fmt"
	"go/types"
	"os"
	"sort"
	"strings"

	"golang.org/x/tools/go/ssa"
)

type callCont func(st *State, fr *Frame, res Value)

func (ex *Exec) doCall(fr *Frame, in ssa.Instruction, c *ssa.CallCommon, st *State, cont callCont) {
	var args []Value
	for _, a := range c.Args {
		args = append(args, ex.get(fr, a))
	}
	if c.IsInvoke() {
		iv := ex.get(fr, c.Value).(*IfaceV)
		ex.invoke(fr, in, c, iv, args, st, cont)
		return
	}
	ex.callValue(fr, in, c, ex.get(fr, c.Value), args, st, cont)
}

func (ex *Exec) callValue(fr *Frame, in ssa.Instruction, c *ssa.CallCommon, fnv Value, args []Value, st *State, cont callCont) {
	if c.IsInvoke() {
		ex.invoke(fr, in, c, fnv.(*IfaceV), args, st, cont)
		return
	}
	fv, ok := fnv.(*FuncV)
	if !ok {
		panic(abortPath{fmt.Sprintf("call of non-function value %T", fnv)})
	}
	switch f := fv.Fn.(type) {
	case *ssa.Builtin:
		ex.builtin(fr, in, c, f, args, st, cont)
	case *ssa.Function:
		all := args
		if len(fv.Bindings) > 0 {
			ex.callClosure(fr, in, f, fv.Bindings, args, st, cont)
			return
		}
		ex.callFunction(fr, in, f, all, st, cont)
	default:
		ex.callSymbolicFunc(fr, in, c, fv, args, st, cont)
	}
}

// call through a function value that was loaded from memory: resolve by id, or split
// over the module functions of that signature whose address is taken (closed world).
func (ex *Exec) callSymbolicFunc(fr *Frame, in ssa.Instruction, c *ssa.CallCommon, fv *FuncV, args []Value, st *State, cont callCont) {
	if fv.Sym == nil {
		panic(abortPath{"call through unknown function value"})
	}
	sym := Subst(fv.Sym, st.substMap())
	if in != nil {
		ex.safe(st, in, "nilfunc", Neq(sym, BVc(0, 64)))
	}
	if sym.IsConst() {
		fn := ex.eng.fnByID[sym.Val.Int64()]
		if fn == nil {
			panic(abortPath{"call through function value with unknown id"})
		}
		ex.callFunction(fr, in, fn, args, st, cont)
		return
	}
	sig, _ := c.Value.Type().Underlying().(*types.Signature)
	var cands []*ssa.Function
	for _, fn := range ex.eng.fnByID {
		if sig != nil && types.Identical(fn.Signature, sig) && len(fn.FreeVars) == 0 {
			cands = append(cands, fn)
		}
	}
	sort.Slice(cands, func(i, j int) bool { return cands[i].String() < cands[j].String() })
	if len(cands) == 0 || len(cands) > 64 {
		panic(abortPath{fmt.Sprintf("call through symbolic function value (%d candidates)", len(cands))})
	}
	var others []*Term
	type arr struct {
		g   *Term
		st  *State
		fr  *Frame
		res Value
	}
	var arrs []arr
	baseLen := len(st.assumes)
	for _, fn := range cands {
		id := ex.eng.funcID(fn)
		others = append(others, Neq(sym, id))
		st1 := st.Clone()
		st1.AssumeCond(Eq(sym, id))
		if !ex.eng.feasibleSolver(st1) {
			continue
		}
		fr1 := fr.fork()
		fn1 := fn
		ex.guard(func() {
			ex.callFunction(fr1, in, fn1, args, st1, func(st2 *State, fr2 *Frame, res Value) {
				arrs = append(arrs, arr{And(st2.assumes[baseLen:]...), st2, fr2, res})
			})
		})
	}
	// merge the arrivals (the candidates are small constructors: same shape of state)
	merged := false
	if len(arrs) > 1 {
		func() {
			defer func() {
				if r := recover(); r != nil {
					if _, ok := r.(abortAll); ok {
						panic(r)
					}
					merged = false
				}
			}()
			mst := arrs[0].st.Clone()
			var gs []*Term
			for _, a := range arrs {
				gs = append(gs, a.g)
			}
			mst.assumes = append(append([]*Term{}, st.assumes[:baseLen]...), Or(gs...))
			mst.subst = st.subst
			sorts := map[Sort]bool{}
			for _, a := range arrs {
				for srt := range a.st.mem.arrs {
					sorts[srt] = true
				}
			}
			for srt := range sorts {
				m := arrs[len(arrs)-1].st.mem.arr(srt, mst.memGen)
				for i := len(arrs) - 2; i >= 0; i-- {
					m = Ite(arrs[i].g, arrs[i].st.mem.arr(srt, mst.memGen), m)
				}
				mst.mem.arrs[srt] = m
			}
			var res Value
			if arrs[0].res != nil {
				res = arrs[len(arrs)-1].res
				for i := len(arrs) - 2; i >= 0; i-- {
					res = IteValue(arrs[i].g, arrs[i].res, res)
				}
			}
			for _, a := range arrs {
				if *a.st.nextRg > *mst.nextRg {
					*mst.nextRg = *a.st.nextRg
				}
			}
			merged = true
			ex.merges++
			cont(mst, arrs[0].fr, res)
		}()
	}
	if !merged {
		for _, a := range arrs {
			a := a
			ex.guard(func() { cont(a.st, a.fr, a.res) })
		}
	}
	ex.addObl(st, "safe", ex.instrLabelOr(in, "safe:funcvalue"), Not(And(others...)), "function value outside the closed world of the module")
}

func (ex *Exec) callClosure(fr *Frame, in ssa.Instruction, fn *ssa.Function, bindings, args []Value, st *State, cont callCont) {
	if fn.Blocks == nil {
		panic(abortPath{"closure without body"})
	}
	nfr := &Frame{fn: fn, regs: map[ssa.Value]Value{}, depth: fr.depth + 1}
	for i, p := range fn.Params {
		nfr.regs[p] = args[i]
	}
	for i, fv := range fn.FreeVars {
		nfr.regs[fv] = bindings[i]
	}
	nfr.retK = func(st2 *State, results []Value) {
		cont(st2, fr.fork(), packResults(results))
	}
	ex.inlined[fn.String()] = true
	ex.runBlock(nfr, fn.Blocks[0], nil, st, map[*ssa.BasicBlock]int{})
}

func packResults(results []Value) Value {
	switch len(results) {
	case 0:
		return nil
	case 1:
		return results[0]
	}
	return &TupleV{Elems: results}
}

func (ex *Exec) invoke(fr *Frame, in ssa.Instruction, c *ssa.CallCommon, iv *IfaceV, args []Value, st *State, cont callCont) {
	// nil interface => panic
	if in != nil {
		ex.safe(st, in, "nilinvoke", Neq(iv.Tag, BVc(0, 32)))
	}
	tag := Subst(iv.Tag, st.substMap())
	mname := c.Method.Name()
	// intrinsic interface methods
	if h, ok := invokeIntrinsics[c.Method.FullName()]; ok {
		h(ex, fr, in, iv, args, st, cont)
		return
	}
	if tag.IsConst() {
		t := ex.eng.typeByTag(tag)
		if t == nil {
			panic(abortPath{"invoke on unknown constant tag"})
		}
		ex.invokeOn(fr, in, c, t, iv, args, st, cont)
		return
	}
	// symbolic dynamic type: interface-method contract?
	if ct := ex.eng.ifaceContract(c.Method); ct != nil {
		recvT := c.Value.Type()
		ex.applyContractVals(fr, in, ct, c.Method.FullName(), c.Method.Type().(*types.Signature), append([]Value{iv}, args...), recvT, st, cont)
		return
	}
	// closed-world case split over implementors inside the module
	impls := ex.eng.implementors(c.Value.Type())
	if len(impls) == 0 || len(impls) > 300 {
		panic(abortPath{fmt.Sprintf("invoke %s.%s: dynamic type unknown (%d implementors)", c.Value.Type(), mname, len(impls))})
	}
	var others []*Term
	for _, t := range impls {
		tt := ex.eng.tags.Tag(t)
		others = append(others, Neq(iv.Tag, tt))
		st1 := st.Clone()
		st1.AssumeCond(Eq(iv.Tag, tt))
		if !ex.eng.feasibleSolver(st1) {
			continue
		}
		fr1 := fr.fork()
		t1 := t
		ex.guard(func() { ex.invokeOn(fr1, in, c, t1, iv, args, st1, cont) })
	}
	// remaining: a type outside the module — cannot be verified
	ex.addObl(st, "safe", ex.instrLabelOr(in, "safe:dyntype"), Not(And(others...)), "dynamic type outside the closed world")
}

func (ex *Exec) instrLabelOr(in ssa.Instruction, kind string) string {
	if in == nil {
		return kind
	}
	return ex.instrLabel(kind, in)
}

func (ex *Exec) invokeOn(fr *Frame, in ssa.Instruction, c *ssa.CallCommon, t types.Type, iv *IfaceV, args []Value, st *State, cont callCont) {
	ms := ex.eng.prog.MethodSets.MethodSet(t)
	sel := ms.Lookup(c.Method.Pkg(), c.Method.Name())
	if sel == nil {
		panic(abortPath{fmt.Sprintf("type %s has no method %s", t, c.Method.Name())})
	}
	fn := ex.eng.prog.MethodValue(sel)
	if fn == nil {
		panic(abortPath{"no method value"})
	}
	recv := ex.unbox(t, iv, st)
	ex.callFunction(fr, in, fn, append([]Value{recv}, args...), st, cont)
}

// ---------- static calls ----------

func (ex *Exec) callFunction(fr *Frame, in ssa.Instruction, fn *ssa.Function, args []Value, st *State, cont callCont) {
	name := fn.String()
	if ex.initMode && fn.Name() == "init" && fn.Pkg != nil && fn.Pkg != ex.root.Pkg {
		// initialisers of imported packages: their globals are not modelled
		cont(st, fr, nil)
		return
	}
	if h, ok := intrinsics[name]; ok {
		ex.intrUsed[name] = true
		h(ex, fr, in, fn, args, st, cont)
		return
	}
	switch fn.Name() {
	case "verifAssert":
		if fn.Pkg != nil && strings.HasPrefix(fn.Pkg.Pkg.Path(), modPath) {
			label := "assert"
			if c, ok := callArg(in, 1).(*ssa.Const); ok && c.Value != nil {
				label = strings.Trim(c.Value.ExactString(), "\"")
			}
			if !(strings.HasPrefix(label, "slow_") && !ex.eng.thorough) {
				ex.addObl(st, "assert", label, args[0].(*Term), ex.pos(in))
			}
			st.Assume(args[0].(*Term))
			cont(st, fr, nil)
			return
		}
	case "verifAssume":
		if fn.Pkg != nil && strings.HasPrefix(fn.Pkg.Pkg.Path(), modPath) {
			st.AssumeCond(args[0].(*Term))
			if !ex.eng.feasible(st) {
				return
			}
			cont(st, fr, nil)
			return
		}
	}
	if strings.HasPrefix(name, "(*github.com/sirupsen/logrus.") || strings.HasPrefix(name, "github.com/sirupsen/logrus.") || strings.HasPrefix(name, "log.") {
		ex.intrUsed["noop:"+name] = true
		// logging: no effect on program state; result (if any) symbolic
		var res Value
		if fn.Signature.Results().Len() > 0 {
			res = st.SymValue(fn.Signature.Results(), "log", *st.nextRg)
			if fn.Signature.Results().Len() == 1 {
				res = res.(*TupleV).Elems[0]
			}
		}
		cont(st, fr, res)
		return
	}
	forceInline := false
	if rct := ex.eng.contractFor(ex.root); rct != nil && len(rct.Inlines) > 0 {
		sn := shortFn(fn)
		for _, pat := range rct.Inlines {
			if pat == sn || (strings.HasSuffix(pat, "*") && strings.HasPrefix(sn, strings.TrimSuffix(pat, "*"))) {
				forceInline = true
			}
		}
	}
	if ct := ex.eng.contractFor(fn); ct != nil && !ct.Inline && !forceInline && !(fn == ex.root && fr.depth == 0 && in == nil) {
		ex.usedCtr[name] = true
		ex.applyContract(fr, in, ct, fn, args, st, cont)
		return
	}
	// wrappers / thunks and module functions: inline
	if fn.Blocks != nil && ex.eng.inlinable(fn) {
		ex.inlined[name] = true
		nfr := &Frame{fn: fn, regs: map[ssa.Value]Value{}, depth: fr.depth + 1}
		for i, p := range fn.Params {
			nfr.regs[p] = args[i]
		}
		if len(fn.FreeVars) > 0 {
			panic(abortPath{"static call of closure with free vars"})
		}
		nfr.retK = func(st2 *State, results []Value) {
			logCall(st2, shortFn(fn), fn.Signature, results)
			cont(st2, fr.fork(), packResults(results))
		}
		if nfr.depth > 14 {
			panic(abortPath{"inline depth exceeded at " + name})
		}
		ex.runBlock(nfr, fn.Blocks[0], nil, st, map[*ssa.BasicBlock]int{})
		return
	}
	panic(abortPath{"no contract/model for " + name})
}

// ---------- contract application at a call site ----------

func (ex *Exec) applyContract(fr *Frame, in ssa.Instruction, ct *Contract, fn *ssa.Function, args []Value, st *State, cont callCont) {
	var recvT types.Type
	ex.applyContractVals(fr, in, ct, fn.String(), fn.Signature, args, recvT, st, cont)
}

// paramBindings builds name->TV for a signature and actuals (receiver first if any).
func paramBindings(sig *types.Signature, args []Value, recvT types.Type) map[string]TV {
	m := map[string]TV{}
	i := 0
	if sig.Recv() != nil {
		t := sig.Recv().Type()
		if recvT != nil {
			t = recvT
		}
		n := sig.Recv().Name()
		if n == "" || n == "_" {
			n = "recv"
		}
		m[n] = TV{V: args[0], T: t}
		m["self"] = m[n]
		i = 1
	}
	for k := 0; k < sig.Params().Len(); k++ {
		p := sig.Params().At(k)
		n := p.Name()
		if n == "" || n == "_" {
			n = fmt.Sprintf("arg%d", k)
		}
		m[n] = TV{V: args[i+k], T: p.Type()}
	}
	return m
}

func bindResults(m map[string]TV, sig *types.Signature, results []Value) {
	rs := sig.Results()
	for k := 0; k < rs.Len(); k++ {
		r := rs.At(k)
		tv := TV{V: results[k], T: r.Type()}
		m[fmt.Sprintf("result%d", k)] = tv
		if r.Name() != "" && r.Name() != "_" {
			m[r.Name()] = tv
		}
		if k == 0 {
			m["result"] = tv
		}
		if k == rs.Len()-1 && types.Identical(r.Type(), types.Universe.Lookup("error").Type()) {
			m["err"] = tv
		}
	}
}

func (ex *Exec) applyContractVals(fr *Frame, in ssa.Instruction, ct *Contract, calleeName string, sig *types.Signature, args []Value, recvT types.Type, st *State, cont callCont) {
	pkg := ex.eng.pkgOfContract(ct)
	env := &SpecEnv{ex: ex, vars: paramBindings(sig, args, recvT), st: st, pkg: pkg, mode: "prove"}
	short := shortName(calleeName)
	// ghost parameters at call sites are existential: unsupported here
	if len(ct.Ghost) > 0 {
		// the caller's contract names the witnesses (`call callee: ghost = expr`), evaluated over the
		// caller's parameters
		var wit map[string]*Node
		if rct := ex.eng.contractFor(ex.root); rct != nil {
			wit = rct.CallGhosts[short]
			if wit == nil {
				wit = rct.CallGhosts[fnNameOnly(short)]
			}
		}
		if wit == nil {
			panic(abortPath{"call of function with ghost parameters without a `call` clause in the caller's contract: " + calleeName})
		}
		cenv := &SpecEnv{ex: ex, vars: map[string]TV{}, st: st, pkg: ex.root.Pkg.Pkg, mode: "prove"}
		for k, v := range ex.rootVars {
			cenv.vars[k] = v
		}
		for _, g := range ct.Ghost {
			n := wit[g.Name]
			if n == nil {
				panic(abortPath{"no witness for ghost parameter " + g.Name + " of " + calleeName})
			}
			v := cenv.eval(n)
			t := env.typeFromString(g.Type)
			if v.U != nil && t != nil {
				v = cenv.coerce(v, t)
			}
			env.vars[g.Name] = v
		}
	}
	ex.evalLets(ct, env)
	for _, r := range ct.Requires {
		g, err := env.EvalBool(r.Expr)
		if err != nil {
			panic(abortPath{fmt.Sprintf("contract of %s: requires %q: %v", calleeName, r.Text, err)})
		}
		lbl := "pre:" + short
		if r.Label != "" {
			lbl += ":" + r.Label
		}
		if in != nil {
			lbl = ex.instrLabel(lbl, in)
		}
		ex.addObl(st, "pre", lbl, g, "precondition of "+calleeName+": "+r.Text)
		st.Assume(g)
	}
	old := st.Clone()
	// havoc frame
	rs := sig.Results()
	nNew := int64(rs.Len())
	if nNew == 0 && len(ct.Modifies) > 0 {
		nNew = 1 // callees may allocate what they store into their frame
	}
	st.havocUB = *st.nextRg + nNew
	for _, m := range ct.Modifies {
		ex.havocSpec(m, env, st, ct)
	}
	st.havocUB = 0
	// results
	base := *st.nextRg
	var results []Value
	if rs.Len() == 0 && len(ct.Modifies) > 0 {
		*st.nextRg++
	}
	for k := 0; k < rs.Len(); k++ {
		*st.nextRg++
		results = append(results, st.SymValue(rs.At(k).Type(), fmt.Sprintf("%s.ret%d", short, k), *st.nextRg))
	}
	if *st.nextRg > base {
		st.foreign = append(st.foreign, [2]int64{base, *st.nextRg})
	}
	env2 := &SpecEnv{ex: ex, vars: paramBindings(sig, args, recvT), st: st, old: old, pkg: pkg, mode: "assume", freshBase: base}
	bindResults(env2.vars, sig, results)
	for _, l := range ct.Lets {
		env2.vars[l.Label] = env.vars[l.Label]
	}
	for _, g := range ct.Ghost {
		env2.vars[g.Name] = env.vars[g.Name]
	}
	// vacuity guard: assuming a clause `A ==> B` must not make A impossible when it was possible before
	// (the callee is verified against its contract, so every real post-state with A also has B; if the
	// abstraction disagrees, side assumptions of the engine are contradictory and everything after the
	// call on the A-paths would be proved vacuously). Checked for the first applications of every callee
	// in every function, on the quantifier-free part of the path condition.
	if ex.vacChecks == nil {
		ex.vacChecks = map[string]int{}
	}
	vac := ex.vacChecks[short] < 2
	ex.vacChecks[short]++
	for _, c := range ct.Ensures {
		n0 := len(st.assumes)
		g, err := env2.EvalBool(c.Expr)
		if err != nil {
			if strings.Contains(err.Error(), "callres:") {
				// the clause talks about calls inside the callee: not expressible at this call site, not assumed
				continue
			}
			panic(abortPath{fmt.Sprintf("contract of %s: ensures %q: %v", calleeName, c.Text, err)})
		}
		st.Assume(g)
		if vac && !g.IsTrue() {
			gs := Subst(g, st.substMap())
			ante := True
			if gs.Op == "=>" {
				ante = gs.Args[0]
			}
			after := boundaryPrune.Status(append(append([]*Term{}, st.assumes...), ante))
			before := "-"
			if after == "unsat" {
				before = boundaryPrune.Status(append(append([]*Term{}, st.assumes[:n0]...), ante))
			}
			if os.Getenv("GOV_DEBUG") != "" {
				fmt.Printf("VACCHECK %s#%s in %s: after=%s before=%s\n", short, c.Label, ex.rootName, after, before)
			}
			if after == "unsat" && before == "sat" {
				ex.fail("ENGINE-VACUITY: clause " + c.Label + " of " + short + " is contradictory at a call site in " + ex.rootName + ": nothing after that call would be checked")
			}
		}
		st.learn(g)
	}
	logCall(st, short, sig, results)
	cont(st, fr, packResults(results))
}

func (ex *Exec) evalLets(ct *Contract, env *SpecEnv) {
	specDepth++
	defer func() { specDepth-- }()
	for _, l := range ct.Lets {
		func() {
			defer func() {
				if r := recover(); r != nil {
					if se, ok := r.(specErr); ok {
						panic(abortPath{fmt.Sprintf("contract %s: let %s: %s", ct.Fn, l.Label, se.msg)})
					}
					panic(r)
				}
			}()
			env.vars[l.Label] = env.eval(l.Expr)
		}()
	}
}

func fnNameOnly(s string) string {
	if i := strings.LastIndex(s, "."); i >= 0 {
		return s[i+1:]
	}
	return s
}

func shortName(s string) string {
	s = strings.ReplaceAll(s, "github.com/brocaar/lorawan/", "")
	s = strings.ReplaceAll(s, "github.com/brocaar/lorawan.", "")
	return s
}

// havocSpec interprets one modifies item:  "*x" / "x.*" (whole pointee), "x.F" (field of pointee),
// "x[:]" (content of slice, elements 0..len), "x[a:b]".
func (ex *Exec) havocSpec(m string, env *SpecEnv, st *State, ct *Contract) {
	specDepth++
	defer func() { specDepth-- }()
	m = strings.TrimSpace(m)
	defer func() {
		if r := recover(); r != nil {
			if se, ok := r.(specErr); ok {
				panic(abortPath{fmt.Sprintf("contract %s: modifies %q: %s", ct.Fn, m, se.msg)})
			}
			panic(r)
		}
	}()
	if strings.HasSuffix(m, ".*") {
		m = "*" + strings.TrimSuffix(m, ".*")
	}
	n, err := ParseSpecExpr(m)
	if err != nil {
		panic(abortPath{fmt.Sprintf("contract %s: modifies %q: %v", ct.Fn, m, err)})
	}
	env.st = st
	if n.Kind == "ident" {
		if a, ok := env.addrs[n.Name]; ok {
			ex.havocLeaves(st, a.T, a.V.(*Term))
			return
		}
	}
	switch n.Kind {
	case "unary":
		if n.Op != "*" {
			sfail("bad modifies")
		}
		p := env.eval(n.Args[0])
		if iv, isI := p.V.(*IfaceV); isI {
			// *self for an interface receiver: the object it holds
			ex.havocRegion(st, iv.Data)
			return
		}
		pt, ok := p.T.Underlying().(*types.Pointer)
		if !ok {
			sfail("modifies *x: x is not a pointer")
		}
		ex.havocLeaves(st, pt.Elem(), p.V.(*Term))
	case "sel":
		a, t := env.lvalAddr(n)
		ex.havocLeaves(st, t, a)
	case "slice":
		sv := env.evalSlice(n)
		s := sv.V.(*SliceV)
		et := sv.T.Underlying().(*types.Slice).Elem()
		ex.havocRange(st, et, s)
	default:
		v := env.eval(n)
		t, ok := v.V.(*Term)
		if !ok || t.Sort != SAddr {
			sfail("unsupported modifies form")
		}
		ex.havocRegion(st, t)
	}
}

// havocRegion: everything in the region of a (map) becomes unknown.
func (ex *Exec) havocRegion(st *State, a *Term) {
	for srt, oldArr := range st.mem.arrs {
		newArr := FreshVar("mem_r", oldArr.Sort)
		st.mem.arrs[srt] = newArr
		RegisterArrayFrame(newArr, oldArr, Rg(a))
		b := BoundVar("a$r", SAddr)
		st.Assume(Forall([]*Term{b}, Implies(Not(Eq(Rg(b), Rg(a))), Eq(mk("select", srt, newArr, b), mk("select", srt, oldArr, b)))))
	}
	if rg := Rg(a); rg.IsConst() {
		delete(st.mapKeys, rg.Val.Int64())
		st.markOpaque(rg.Val.Int64())
	}
}

func (ex *Exec) havocLeaves(st *State, t types.Type, a *Term) {
	forEachLeaf(t, a, func(s Sort, la *Term) {
		v := FreshVar("havoc", s)
		if s == SAddr {
			// an unknown pointer written by the callee / loop body refers to memory that exists when it returns
			ub := *st.nextRg
			if st.havocUB > ub {
				ub = st.havocUB
			}
			st.Assume(IntCmp("<=", Rg(v), IntConst(ub)))
		}
		st.storeScalar(s, la, v)
	})
}

// havocRange: elements [0,len) of slice s get unknown values.
func (ex *Exec) havocRange(st *State, et types.Type, s *SliceV) {
	n := Subst(s.Len, st.substMap())
	if n.IsConst() && n.Val.Int64() <= 64 {
		for i := int64(0); i < n.Val.Int64(); i++ {
			ex.havocLeaves(st, et, s.ElemAddr(BVc(i, 64)))
		}
		return
	}
	if kindOf(et) != KScalar {
		// composite elements, symbolic length: over-approximate by havocking the whole region of the
		// slice for the scalar sorts the element type contains (sound: more is forgotten than written)
		sorts := map[Sort]bool{}
		forEachLeaf(et, s.ElemAddr(BVc(0, 64)), func(srt Sort, a *Term) { sorts[srt] = true })
		for srt := range sorts {
			oldArr := st.mem.arr(srt, st.memGen)
			newArr := FreshVar("mem_r", oldArr.Sort)
			st.mem.arrs[srt] = newArr
			RegisterArrayFrame(newArr, oldArr, Rg(s.Base))
			b := BoundVar("a$r", SAddr)
			st.Assume(ForallPat([]*Term{b}, Implies(Not(Eq(Rg(b), Rg(s.Base))), Eq(mk("select", srt, newArr, b), mk("select", srt, oldArr, b))), mk("select", srt, newArr, b)))
		}
		return
	}
	srt := scalarSort(et)
	oldArr := st.mem.arr(srt, st.memGen)
	newArr := FreshVar("mem_h", oldArr.Sort)
	st.mem.arrs[srt] = newArr
	RegisterArrayFrame(newArr, oldArr, Rg(s.Base))
	a := BoundVar("a$h", SAddr)
	inRange := inSliceRange(a, s)
	st.Assume(Forall([]*Term{a}, Implies(Not(inRange), Eq(mk("select", srt, newArr, a), mk("select", srt, oldArr, a)))))
}

// inSliceRange(a, s): a == elem(s.Base, s.Off + j) for some 0 <= j < s.Len
func inSliceRange(a *Term, s *SliceV) *Term {
	pa := Pa(a)
	isElem := mk("(_ is elem)", SBool, pa)
	idx := mk("eidx", BV(64), pa)
	return And(Eq(Rg(a), Rg(s.Base)), isElem, mkEqRaw(mk("ebase", SPath, pa), Pa(s.Base)),
		BVCmp("bvult", BVBin("bvsub", idx, s.Off), s.Len))
}

// ---------- loops with invariants ----------

type loopInfo struct {
	spec *LoopSpec
	idx  int
}

const iterGap = 1000000 // region ids reserved for allocations of earlier iterations

// loopEnv: names visible in loop clauses: parameters, source-level locals (DebugRef), header phis.
func (ex *Exec) loopEnv(fr *Frame, b *ssa.BasicBlock, st *State, old *State) *SpecEnv {
	specDepth++
	defer func() { specDepth-- }()
	fn := fr.fn
	var args []Value
	for _, p := range fn.Params {
		args = append(args, fr.regs[p])
	}
	pkg := fn.Pkg.Pkg
	env := &SpecEnv{ex: ex, vars: paramBindings(fn.Signature, args, nil), st: st, old: old, pkg: pkg, mode: "prove"}
	for k, v := range ex.rootVars {
		if _, ok := env.vars[k]; !ok {
			env.vars[k] = v
		}
	}
	for name, ref := range fr.names {
		val, ok := fr.regs[ref.v]
		if !ok {
			if c, isC := ref.v.(*ssa.Const); isC {
				val = ex.constValue(c)
			} else {
				continue
			}
		}
		t := ref.v.Type()
		if ref.isAddr {
			pt, ok := t.Underlying().(*types.Pointer)
			if !ok {
				continue
			}
			env.vars[name] = TV{V: st.Load(pt.Elem(), val.(*Term)), T: pt.Elem()}
			if env.addrs == nil {
				env.addrs = map[string]TV{}
			}
			env.addrs[name] = TV{V: val, T: pt.Elem()}
		} else {
			env.vars[name] = TV{V: val, T: t}
		}
	}
	for _, in := range b.Instrs {
		phi, ok := in.(*ssa.Phi)
		if !ok {
			break
		}
		if phi.Comment != "" {
			if v, ok := fr.regs[phi]; ok {
				env.vars[phi.Comment] = TV{V: v, T: phi.Type()}
			}
		}
	}
	// stack-allocated locals (struct variables whose fields are addressed) that were not referenced yet
	var allocs []*ssa.Alloc
	allocs = append(allocs, fn.Locals...)
	for v := range fr.regs {
		if al, ok := v.(*ssa.Alloc); ok && al.Heap {
			allocs = append(allocs, al)
		}
	}
	sort.Slice(allocs, func(i, j int) bool { return allocs[i].Pos() < allocs[j].Pos() })
	for _, al := range allocs {
		if al.Comment == "" {
			continue
		}
		if _, known := env.addrs[al.Comment]; known {
			continue
		}
		val, ok := fr.regs[al]
		if !ok {
			continue
		}
		pt := al.Type().Underlying().(*types.Pointer)
		if env.addrs == nil {
			env.addrs = map[string]TV{}
		}
		env.addrs[al.Comment] = TV{V: val, T: pt.Elem()}
		if _, ok := env.vars[al.Comment]; !ok {
			env.vars[al.Comment] = TV{V: st.Load(pt.Elem(), val.(*Term)), T: pt.Elem()}
		}
	}
	return env
}

// atLoopHead returns true if execution should continue into the header block.
func (ex *Exec) atLoopHead(fr *Frame, b *ssa.BasicBlock, prev *ssa.BasicBlock, st *State, visits map[*ssa.BasicBlock]int, li *loopInfo) bool {
	lname := fmt.Sprintf("loop%d", li.idx)
	evalInv := func(env *SpecEnv, kind string) []*Term {
		var gs []*Term
		for _, c := range li.spec.Invariants {
			g, err := env.EvalBool(c.Expr)
			if err != nil {
				panic(abortAll{fmt.Sprintf("%s invariant %q: %v", lname, c.Text, err)})
			}
			gs = append(gs, g)
			if kind != "" {
				ex.addObl(st, "inv", fmt.Sprintf("%s:%s:%s", lname, kind, c.Label), g, c.Text)
			}
		}
		return gs
	}
	if ctx, active := fr.loops[b]; active {
		// back edge: invariant preserved, measure decreases; path ends here
		env := ex.loopEnv(fr, b, st, ex.entry)
		env.loopEntry = ctx.headSt
		evalInv(env, "preserve")
		env.prevSt, env.prevVars = ctx.iterSt, ctx.iterVars
		for _, c := range li.spec.Steps {
			g, err := env.EvalBool(c.Expr)
			if err != nil {
				panic(abortAll{fmt.Sprintf("%s step %q: %v", lname, c.Text, err)})
			}
			ex.addObl(st, "inv", fmt.Sprintf("%s:step:%s", lname, c.Label), g, c.Text)
		}
		if li.spec.Decreases != nil {
			m1 := env.eval(li.spec.Decreases.Expr)
			m1t := SignExt(m1.V.(*Term), 64)
			g := And(BVCmp("bvsge", ctx.measure, BVc(0, 64)), BVCmp("bvslt", m1t, ctx.measure))
			ex.addObl(st, "inv", lname+":decreases", g, li.spec.Decreases.Text)
		}
		ex.paths++
		return false
	}
	// first arrival
	headSt := st.Clone()
	env := ex.loopEnv(fr, b, st, ex.entry)
	env.loopEntry = headSt
	evalInv(env, "init")
	// the body is verified from the invariant alone: quantified facts established before the
	// loop (bulk copies etc.) are dropped here; what the body needs of them belongs in the invariant
	var dropped []*Term
	{
		var kept []*Term
		for _, a := range st.assumes {
			if a.Op == "forall" {
				if _, global := axiomRegion[a.id]; !global {
					dropped = append(dropped, a)
					continue
				}
			}
			kept = append(kept, a)
		}
		st.assumes = kept
	}
	// havoc loop-carried values (header phis) and declared memory
	base := *st.nextRg
	*st.nextRg = base + iterGap
	st.foreign = append(st.foreign, [2]int64{base, base + iterGap})
	for _, in := range b.Instrs {
		phi, ok := in.(*ssa.Phi)
		if !ok {
			break
		}
		nm := phi.Comment
		if nm == "" {
			nm = phi.Name()
		}
		fr.regs[phi] = st.SymValue(phi.Type(), lname+"."+nm, *st.nextRg)
		if phi.Comment != "" {
			// the loop-carried value is the variable's current value for clauses of inner loops
			if fr.names == nil {
				fr.names = map[string]nameRef{}
			}
			fr.names[phi.Comment] = nameRef{v: phi}
		}
	}
	if len(li.spec.Modifies) > 0 {
		ct := ex.eng.contractFor(fr.fn)
		env0 := ex.loopEnv(fr, b, st, ex.entry)
		for _, m := range li.spec.Modifies {
			ex.havocSpec(m, env0, st, ct)
		}
	}
	// locals whose address is taken and that are assigned inside the loop live in
	// regions allocated before the loop: they are covered by "loop N: modifies".
	env2 := ex.loopEnv(fr, b, st, ex.entry)
	env2.loopEntry = headSt
	for _, g := range evalInv(env2, "") {
		st.AssumeCond(g)
	}
	ctx := &loopCtx{li: li, headSt: headSt, dropped: dropped, body: loopBody(b)}
	if len(li.spec.Steps) > 0 {
		ctx.iterSt = st.Clone()
		ctx.iterVars = map[string]TV{}
		for k, v := range env2.vars {
			ctx.iterVars[k] = v
		}
	}
	if li.spec.Decreases != nil {
		m0 := env2.eval(li.spec.Decreases.Expr)
		if m0.U != nil {
			panic(abortAll{"constant decreases expression"})
		}
		ctx.measure = SignExt(m0.V.(*Term), 64)
	}
	if fr.loops == nil {
		fr.loops = map[*ssa.BasicBlock]*loopCtx{}
	}
	fr.loops[b] = ctx
	// loop frame: stores to regions that existed before the loop must be inside "loop modifies"
	var mods []modItem
	func() {
		defer func() {
			if r := recover(); r != nil {
				if se, ok := r.(specErr); ok {
					panic(abortAll{lname + " modifies: " + se.msg})
				}
				panic(r)
			}
		}()
		for _, m := range li.spec.Modifies {
			mods = append(mods, env2.modItem(m))
		}
	}()
	outer := st.frameCheck
	outerR := st.frameCheckRange
	ctx.outerFC, ctx.outerFR = outer, outerR
	st.frameCheck = func(ex *Exec, st *State, in ssa.Instruction, a *Term) {
		if outer != nil {
			outer(ex, st, in, a)
		}
		g := loopFrameGoal(a, base, mods)
		if !g.IsTrue() {
			ex.addObl(st, "frame", lname+":frame", g, ex.pos(in))
		}
	}
	st.frameCheckRange = func(ex *Exec, st *State, in ssa.Instruction, dst *SliceV, n *Term) {
		if outerR != nil {
			outerR(ex, st, in, dst, n)
		}
		g := Or(IntCmp(">", Rg(dst.Base), IntConst(base)), frameRangeGoal(dst, n, mods))
		if !g.IsTrue() {
			ex.addObl(st, "frame", lname+":frame", Implies(Neq(n, BVc(0, 64)), g), ex.pos(in))
		}
	}
	return true
}

// a store inside a loop body is fine if it goes to a region allocated in this
// iteration, or falls inside the loop's declared modifies set.
func loopFrameGoal(a *Term, base int64, mods []modItem) *Term {
	alts := []*Term{IntCmp(">", Rg(a), IntConst(base))}
	for _, m := range mods {
		switch m.kind {
		case "under":
			alts = append(alts, underTerm(a, m.addr))
		case "range":
			alts = append(alts, inSliceRangeC(a, m.slice))
		}
	}
	return Or(alts...)
}

func callArg(in ssa.Instruction, i int) ssa.Value {
	if c, ok := in.(*ssa.Call); ok && i < len(c.Call.Args) {
		return c.Call.Args[i]
	}
	return nil
}

func logCall(st *State, name string, sig *types.Signature, results []Value) {
	if len(results) == 0 {
		return
	}
	if st.callLog == nil {
		st.callLog = map[string][]TV{}
	}
	for _, r := range results {
		if sl, ok := r.(*SliceV); ok {
			resultSnapshot[sl] = st.mem.arr(BV(8), st.memGen)
		}
	}
	var tv TV
	if len(results) == 1 {
		tv = TV{V: results[0], T: sig.Results().At(0).Type()}
	} else {
		tv = TV{V: &TupleV{Elems: results}, T: sig.Results()}
	}
	st.callLog[name] = append(st.callLog[name], tv)
}

// loopBody: blocks of the natural loop with header h (dominated by h and reaching a back edge).
func loopBody(h *ssa.BasicBlock) map[*ssa.BasicBlock]bool {
	body := map[*ssa.BasicBlock]bool{h: true}
	var work []*ssa.BasicBlock
	for _, p := range h.Preds {
		if h.Dominates(p) {
			work = append(work, p)
		}
	}
	for len(work) > 0 {
		b := work[len(work)-1]
		work = work[:len(work)-1]
		if body[b] {
			continue
		}
		body[b] = true
		for _, p := range b.Preds {
			work = append(work, p)
		}
	}
	return body
}
