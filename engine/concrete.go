package main

import (
	"crypto/aes"
	"math/big"
)

// Concrete evaluation for replays: once the inputs and outputs of a real execution are known, the
// uninterpreted functions standing for AES-128 and AES-CMAC are evaluated with the real primitives
// (crypto/aes; CMAC per RFC 4493), and quantifiers with constant bounds are expanded, so that a
// clause about a MIC or a keystream can be decided on the observed execution.

func bv128Bytes(t *Term) ([]byte, bool) {
	if !t.IsConst() || t.Sort != BV(128) {
		return nil, false
	}
	b := t.Val.Bytes()
	if len(b) > 16 {
		return nil, false
	}
	out := make([]byte, 16)
	copy(out[16-len(b):], b)
	return out, true
}

func bytesBV128(b []byte) *Term { return BVConst(new(big.Int).SetBytes(b), 128) }

func seqBytes(t *Term) ([]byte, bool) {
	switch t.Op {
	case "seq_empty":
		return []byte{}, true
	case "seq_snoc":
		acc, ok := seqBytes(t.Args[0])
		if !ok || !t.Args[1].IsConst() {
			return nil, false
		}
		return append(acc, byte(t.Args[1].Val.Uint64())), true
	case "seq_zeros":
		acc, ok := seqBytes(t.Args[0])
		if !ok || !t.Args[1].IsConst() || t.Args[1].Val.Uint64() > 4096 {
			return nil, false
		}
		return append(acc, make([]byte, t.Args[1].Val.Uint64())...), true
	case "seq_app":
		acc, ok := seqBytes(t.Args[0])
		if !ok {
			return nil, false
		}
		arr, base, off, n := t.Args[1], t.Args[2], t.Args[3], t.Args[4]
		if !n.IsConst() || n.Val.Uint64() > 4096 {
			return nil, false
		}
		for i := int64(0); i < n.Val.Int64(); i++ {
			v := Select(arr, ElemAddr(base, BVBin("bvadd", off, BVc(i, 64))))
			if !v.IsConst() {
				return nil, false
			}
			acc = append(acc, byte(v.Val.Uint64()))
		}
		return acc, true
	}
	return nil, false
}

func cmacAES128(key, msg []byte) []byte {
	c, _ := aes.NewCipher(key)
	shift := func(in []byte) []byte {
		out := make([]byte, 16)
		var carry byte
		for i := 15; i >= 0; i-- {
			out[i] = in[i]<<1 | carry
			carry = in[i] >> 7
		}
		if carry != 0 {
			out[15] ^= 0x87
		}
		return out
	}
	l := make([]byte, 16)
	c.Encrypt(l, l)
	k1 := shift(l)
	k2 := shift(k1)
	n := (len(msg) + 15) / 16
	complete := n > 0 && len(msg)%16 == 0
	if n == 0 {
		n = 1
	}
	last := make([]byte, 16)
	if complete {
		copy(last, msg[(n-1)*16:])
		for i := range last {
			last[i] ^= k1[i]
		}
	} else {
		rem := msg[(n-1)*16:]
		copy(last, rem)
		last[len(rem)] = 0x80
		for i := range last {
			last[i] ^= k2[i]
		}
	}
	x := make([]byte, 16)
	for i := 0; i < n-1; i++ {
		for j := 0; j < 16; j++ {
			x[j] ^= msg[i*16+j]
		}
		c.Encrypt(x, x)
	}
	for j := 0; j < 16; j++ {
		x[j] ^= last[j]
	}
	c.Encrypt(x, x)
	return x
}

// foldConcrete rebuilds t bottom-up (constant folding by the smart constructors), evaluating AES /
// CMAC applications on constant arguments and expanding quantifiers whose bounds became constant.
func foldConcrete(t *Term) *Term {
	memo := map[int]*Term{}
	var rec func(t *Term) *Term
	rec = func(t *Term) *Term {
		if len(t.Args) == 0 {
			return t
		}
		if r, ok := memo[t.id]; ok {
			return r
		}
		var r *Term
		if t.Op == "forall" {
			r = expandConstForall(t, rec)
		} else {
			args := make([]*Term, len(t.Args))
			changed := false
			for i, a := range t.Args {
				args[i] = rec(a)
				if args[i] != a {
					changed = true
				}
			}
			r = t
			if changed {
				r = Rebuild(t, args)
			}
			switch r.Op {
			case "aes_enc", "aes_dec":
				if k, ok := bv128Bytes(r.Args[0]); ok {
					if b, ok2 := bv128Bytes(r.Args[1]); ok2 {
						c, _ := aes.NewCipher(k)
						out := make([]byte, 16)
						if r.Op == "aes_enc" {
							c.Encrypt(out, b)
						} else {
							c.Decrypt(out, b)
						}
						r = bytesBV128(out)
					}
				}
			case "cmac":
				if k, ok := bv128Bytes(r.Args[0]); ok {
					if m, ok2 := seqBytes(r.Args[1]); ok2 {
						r = bytesBV128(cmacAES128(k, m))
					}
				}
			}
		}
		memo[t.id] = r
		return r
	}
	return rec(t)
}

// expandConstForall: forall k. (lo <= k && k < hi) ==> P(k) with constant lo, hi (at most 1024 values)
func expandConstForall(t *Term, rec func(*Term) *Term) *Term {
	body, vars := quantParts(t)
	if len(vars) != 1 || !vars[0].Sort.IsBV() || body.Op != "=>" {
		return t
	}
	v := vars[0]
	lo, hi, ok := constBounds(body.Args[0], v)
	if !ok || hi-lo > 1024 {
		return t
	}
	var cs []*Term
	for k := lo; k < hi; k++ {
		inst := Subst(body.Args[1], map[*Term]*Term{v: BVc(k, v.Sort.Width())})
		cs = append(cs, rec(inst))
	}
	return And(cs...)
}

func constBounds(g *Term, v *Term) (int64, int64, bool) {
	var lo, hi int64
	haveLo, haveHi := false, false
	var conj []*Term
	if g.Op == "and" {
		conj = g.Args
	} else {
		conj = []*Term{g}
	}
	for _, c := range conj {
		if len(c.Args) != 2 {
			return 0, 0, false
		}
		a, b := c.Args[0], c.Args[1]
		switch c.Op {
		case "bvsle", "bvule":
			if b == v && a.IsConst() { // lo <= v
				lo, haveLo = a.Signed().Int64(), true
			} else if a == v && b.IsConst() { // v <= hi-1
				hi, haveHi = b.Signed().Int64()+1, true
			} else {
				return 0, 0, false
			}
		case "bvslt", "bvult":
			if a == v && b.IsConst() { // v < hi
				hi, haveHi = b.Signed().Int64(), true
			} else if b == v && a.IsConst() { // lo-1 < v
				lo, haveLo = a.Signed().Int64()+1, true
			} else {
				return 0, 0, false
			}
		default:
			return 0, 0, false
		}
	}
	if !haveHi {
		return 0, 0, false
	}
	if !haveLo {
		lo = 0
	}
	return lo, hi, true
}
