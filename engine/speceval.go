package main

// Evaluator of contract expressions over symbolic states.

import (
	"fmt"
	"go/constant"
	"go/types"
	"math/big"
	"strings"
)

type TV struct {
	V Value
	T types.Type
	U *big.Int // untyped integer constant
}

var (
	tBool = types.Typ[types.Bool]
	tInt  = types.Typ[types.Int]
	tU8   = types.Typ[types.Uint8]
	tU64  = types.Typ[types.Uint64]
	tNil  = types.Typ[types.UntypedNil]
	tF64  = types.Typ[types.Float64]
	tStr  = types.Typ[types.String]
)

type SpecEnv struct {
	ex   *Exec
	vars map[string]TV
	st   *State
	old  *State
	pkg  *types.Package
	// when evaluating at a call site, fresh(x) in ensures is an assumption
	mode      string        // "assume" | "prove"
	freshBase int64         // regions > freshBase are "allocated during the call"
	addrs     map[string]TV // address-taken locals: name -> (address, element type); lvalues in modifies
	loopEntry *State        // state when the enclosing loop was entered (entry(e))
	prevSt    *State        // state at the head of the current iteration (prev(e), step clauses only)
	prevVars  map[string]TV // variables at the head of the current iteration
}

// specDepth > 0 while contract expressions are evaluated (ghost reads are not program accesses)
var specDepth int

type specErr struct{ msg string }

func sfail(format string, a ...interface{}) { panic(specErr{fmt.Sprintf(format, a...)}) }

func (e *SpecEnv) with(name string, v TV) *SpecEnv {
	n := *e
	n.vars = make(map[string]TV, len(e.vars)+1)
	for k, x := range e.vars {
		n.vars[k] = x
	}
	n.vars[name] = v
	return &n
}

func boolTV(t *Term) TV { return TV{V: t, T: tBool} }

func (e *SpecEnv) EvalBool(n *Node) (t *Term, err error) {
	specDepth++
	defer func() { specDepth-- }()
	defer func() {
		if r := recover(); r != nil {
			if se, ok := r.(specErr); ok {
				err = fmt.Errorf("%s", se.msg)
				return
			}
			panic(r)
		}
	}()
	v := e.eval(n)
	b, ok := v.V.(*Term)
	if !ok || b.Sort != SBool {
		return nil, fmt.Errorf("clause is not boolean")
	}
	return b, nil
}

func basicByName(name string) types.Type {
	switch name {
	case "int":
		return types.Typ[types.Int]
	case "int8":
		return types.Typ[types.Int8]
	case "int16":
		return types.Typ[types.Int16]
	case "int32":
		return types.Typ[types.Int32]
	case "int64":
		return types.Typ[types.Int64]
	case "uint":
		return types.Typ[types.Uint]
	case "uint8", "byte":
		return types.Typ[types.Uint8]
	case "uint16":
		return types.Typ[types.Uint16]
	case "uint32":
		return types.Typ[types.Uint32]
	case "uint64":
		return types.Typ[types.Uint64]
	case "bool":
		return types.Typ[types.Bool]
	case "float64":
		return types.Typ[types.Float64]
	case "float32":
		return types.Typ[types.Float32]
	case "string":
		return types.Typ[types.String]
	}
	return nil
}

func (e *SpecEnv) lookupType(name string) types.Type {
	if t := basicByName(name); t != nil {
		return t
	}
	if e.pkg != nil {
		if o, ok := e.pkg.Scope().Lookup(name).(*types.TypeName); ok {
			return o.Type()
		}
	}
	return nil
}

// typeFromString parses "*T", "[]T", "T", "pkg.T" (pkg = imported package name).
func (e *SpecEnv) typeFromString(s string) types.Type {
	s = strings.TrimSpace(s)
	if strings.HasPrefix(s, "*") {
		t := e.typeFromString(s[1:])
		if t == nil {
			return nil
		}
		return types.NewPointer(t)
	}
	if strings.HasPrefix(s, "[]") {
		t := e.typeFromString(s[2:])
		if t == nil {
			return nil
		}
		return types.NewSlice(t)
	}
	if i := strings.Index(s, "."); i >= 0 && e.pkg != nil {
		for _, imp := range e.pkg.Imports() {
			if imp.Name() == s[:i] {
				if o, ok := imp.Scope().Lookup(s[i+1:]).(*types.TypeName); ok {
					return o.Type()
				}
			}
		}
		return nil
	}
	return e.lookupType(s)
}

func (e *SpecEnv) constFromPkg(name string) (TV, bool) {
	if e.pkg == nil {
		return TV{}, false
	}
	o := e.pkg.Scope().Lookup(name)
	if c, ok := o.(*types.Const); ok {
		t := c.Type()
		if b, isB := t.Underlying().(*types.Basic); isB {
			if b.Info()&types.IsUntyped != 0 && b.Info()&types.IsInteger != 0 {
				bi, _ := new(big.Int).SetString(c.Val().ExactString(), 10)
				return TV{U: bi}, true
			}
			if b.Info()&types.IsInteger != 0 {
				bi, _ := new(big.Int).SetString(constant.ToInt(c.Val()).ExactString(), 10)
				return TV{V: BVConst(bi, scalarSort(t).Width()), T: t}, true
			}
			if b.Info()&types.IsBoolean != 0 {
				return TV{V: BoolConst(constant.BoolVal(c.Val())), T: t}, true
			}
			if b.Info()&types.IsString != 0 {
				return TV{V: e.ex.eng.strConst(constant.StringVal(c.Val())), T: t}, true
			}
		}
	}
	if g, ok := o.(*types.Var); ok && e.ex != nil {
		// package-level variable: its address
		if a := e.ex.eng.globalAddrByObj(g); a != nil {
			return TV{V: e.st.Load(g.Type(), a), T: g.Type()}, true
		}
	}
	return TV{}, false
}

func (e *SpecEnv) coerce(v TV, t types.Type) TV {
	if v.U == nil {
		return v
	}
	s := scalarSort(t)
	switch {
	case s.IsBV():
		return TV{V: BVConst(v.U, s.Width()), T: t}
	case s == SF64:
		f, _ := new(big.Float).SetInt(v.U).Float64()
		return TV{V: FPConst64(f), T: t}
	case s == SF32:
		f, _ := new(big.Float).SetInt(v.U).Float64()
		return TV{V: FPConst32(float32(f)), T: t}
	}
	sfail("cannot coerce untyped constant to %s", t)
	return TV{}
}

func (e *SpecEnv) unify(a, b TV) (TV, TV) {
	if a.U != nil && b.U != nil {
		return a, b
	}
	if a.U != nil {
		return e.coerce(a, b.T), b
	}
	if b.U != nil {
		return a, e.coerce(b, a.T)
	}
	return a, b
}

func (e *SpecEnv) isNilTV(v TV) bool { return v.T == tNil }

func (e *SpecEnv) eqNil(v TV) *Term {
	switch x := v.V.(type) {
	case *IfaceV:
		return Eq(x.Tag, BVc(0, 32))
	case *SliceV:
		return Eq(Rg(x.Base), IntConst(0))
	case *Term:
		if x.Sort == SAddr {
			return Eq(Rg(x), IntConst(0))
		}
	}
	sfail("comparison with nil of %T", v.V)
	return nil
}

func (e *SpecEnv) eval(n *Node) TV {
	switch n.Kind {
	case "num":
		return TV{U: n.Val}
	case "str":
		return TV{V: e.ex.eng.strConst(n.Name), T: tStr}
	case "paren":
		return e.eval(n.Args[0])
	case "ident":
		switch n.Name {
		case "true":
			return boolTV(True)
		case "false":
			return boolTV(False)
		case "nil":
			return TV{T: tNil}
		}
		if v, ok := e.vars[n.Name]; ok {
			return v
		}
		if v, ok := e.constFromPkg(n.Name); ok {
			return v
		}
		sfail("unknown identifier %q", n.Name)
	case "unary":
		return e.evalUnary(n)
	case "binary":
		return e.evalBinary(n)
	case "sel":
		return e.evalSel(n)
	case "index":
		return e.evalIndex(n)
	case "slice":
		return e.evalSlice(n)
	case "call":
		return e.evalCall(n)
	case "forall", "exists":
		if r, ok := e.expandBoundedForall(n); ok {
			return r
		}
		env := e
		var vars []*Term
		var guards []*Term
		for _, b := range n.Binders {
			t := e.lookupType(b.Type)
			if t == nil {
				sfail("unknown binder type %q", b.Type)
			}
			bv := BoundVar(fmt.Sprintf("%s$%d", b.Name, n.Pos), scalarSort(t))
			vars = append(vars, bv)
			env = env.with(b.Name, TV{V: bv, T: t})
		}
		_ = guards
		body := env.eval(n.Args[0])
		bt, ok := body.V.(*Term)
		if !ok || bt.Sort != SBool {
			sfail("quantifier body not boolean")
		}
		if n.Kind == "forall" {
			return boolTV(Forall(vars, bt))
		}
		return boolTV(Exists(vars, bt))
	}
	sfail("cannot evaluate node kind %q", n.Kind)
	return TV{}
}

func (e *SpecEnv) evalUnary(n *Node) TV {
	x := e.eval(n.Args[0])
	switch n.Op {
	case "!":
		return boolTV(Not(x.V.(*Term)))
	case "-":
		if x.U != nil {
			return TV{U: new(big.Int).Neg(x.U)}
		}
		t := x.V.(*Term)
		if t.Sort.IsFP() {
			return TV{V: FPNeg(t), T: x.T}
		}
		return TV{V: BVNeg(t), T: x.T}
	case "^":
		if x.U != nil {
			return TV{U: new(big.Int).Not(x.U)}
		}
		return TV{V: BVNot(x.V.(*Term)), T: x.T}
	case "*":
		pt, ok := x.T.Underlying().(*types.Pointer)
		if !ok {
			sfail("deref of non-pointer %s", x.T)
		}
		return TV{V: e.st.Load(pt.Elem(), x.V.(*Term)), T: pt.Elem()}
	case "&":
		sfail("& not supported in specs")
	}
	sfail("unary %s", n.Op)
	return TV{}
}

func (e *SpecEnv) evalBinary(n *Node) TV {
	switch n.Op {
	case "&&":
		a := e.eval(n.Args[0]).V.(*Term)
		if a.IsFalse() {
			return boolTV(False)
		}
		return boolTV(And(a, e.eval(n.Args[1]).V.(*Term)))
	case "||":
		a := e.eval(n.Args[0]).V.(*Term)
		if a.IsTrue() {
			return boolTV(True)
		}
		return boolTV(Or(a, e.eval(n.Args[1]).V.(*Term)))
	case "==>":
		a := e.eval(n.Args[0]).V.(*Term)
		if a.IsFalse() {
			return boolTV(True)
		}
		return boolTV(Implies(a, e.eval(n.Args[1]).V.(*Term)))
	case "<==>":
		return boolTV(Eq(e.eval(n.Args[0]).V.(*Term), e.eval(n.Args[1]).V.(*Term)))
	}
	a, b := e.eval(n.Args[0]), e.eval(n.Args[1])
	if n.Op == "==" || n.Op == "!=" {
		var r *Term
		switch {
		case e.isNilTV(a) && e.isNilTV(b):
			r = True
		case e.isNilTV(b):
			r = e.eqNil(a)
		case e.isNilTV(a):
			r = e.eqNil(b)
		default:
			a, b = e.unify(a, b)
			if a.U != nil {
				r = BoolConst(a.U.Cmp(b.U) == 0)
			} else {
				if !sameShape(a.V, b.V) {
					sfail("== on different shapes (%s vs %s)", a.T, b.T)
				}
				r = ValueEq(a.T, a.V, b.V)
			}
		}
		if n.Op == "!=" {
			r = Not(r)
		}
		return boolTV(r)
	}
	// shifts: rhs independent
	if n.Op == "<<" || n.Op == ">>" {
		if a.U != nil && b.U != nil {
			if n.Op == "<<" {
				return TV{U: new(big.Int).Lsh(a.U, uint(b.U.Int64()))}
			}
			return TV{U: new(big.Int).Rsh(a.U, uint(b.U.Int64()))}
		}
		if a.U != nil {
			sfail("shift of untyped constant by non-constant")
		}
		at := a.V.(*Term)
		var bt *Term
		if b.U != nil {
			bt = BVConst(b.U, at.Sort.Width())
		} else {
			bt = b.V.(*Term)
		}
		if n.Op == "<<" {
			return TV{V: goShift("bvshl", at, bt, false), T: a.T}
		}
		if isSigned(a.T) {
			return TV{V: goShift("bvashr", at, bt, false), T: a.T}
		}
		return TV{V: goShift("bvlshr", at, bt, false), T: a.T}
	}
	a, b = e.unify(a, b)
	if a.U != nil {
		x, y := a.U, b.U
		switch n.Op {
		case "+":
			return TV{U: new(big.Int).Add(x, y)}
		case "-":
			return TV{U: new(big.Int).Sub(x, y)}
		case "*":
			return TV{U: new(big.Int).Mul(x, y)}
		case "/":
			return TV{U: new(big.Int).Quo(x, y)}
		case "%":
			return TV{U: new(big.Int).Rem(x, y)}
		case "&":
			return TV{U: new(big.Int).And(x, y)}
		case "|":
			return TV{U: new(big.Int).Or(x, y)}
		case "^":
			return TV{U: new(big.Int).Xor(x, y)}
		case "&^":
			return TV{U: new(big.Int).AndNot(x, y)}
		case "<":
			return boolTV(BoolConst(x.Cmp(y) < 0))
		case "<=":
			return boolTV(BoolConst(x.Cmp(y) <= 0))
		case ">":
			return boolTV(BoolConst(x.Cmp(y) > 0))
		case ">=":
			return boolTV(BoolConst(x.Cmp(y) >= 0))
		}
	}
	at, ok1 := a.V.(*Term)
	bt, ok2 := b.V.(*Term)
	if !ok1 || !ok2 {
		sfail("binary %s on non-scalar", n.Op)
	}
	if at.Sort != bt.Sort {
		sfail("binary %s: operand sorts differ (%s: %s vs %s: %s)", n.Op, a.T, at.Sort, b.T, bt.Sort)
	}
	if at.Sort.IsFP() {
		switch n.Op {
		case "+":
			return TV{V: FPBin("fp.add", at, bt), T: a.T}
		case "-":
			return TV{V: FPBin("fp.sub", at, bt), T: a.T}
		case "*":
			return TV{V: FPBin("fp.mul", at, bt), T: a.T}
		case "/":
			return TV{V: FPBin("fp.div", at, bt), T: a.T}
		case "<":
			return boolTV(FPCmp("fp.lt", at, bt))
		case "<=":
			return boolTV(FPCmp("fp.leq", at, bt))
		case ">":
			return boolTV(FPCmp("fp.gt", at, bt))
		case ">=":
			return boolTV(FPCmp("fp.geq", at, bt))
		}
	}
	signed := isSigned(a.T)
	switch n.Op {
	case "+":
		return TV{V: BVBin("bvadd", at, bt), T: a.T}
	case "-":
		return TV{V: BVBin("bvsub", at, bt), T: a.T}
	case "*":
		return TV{V: BVBin("bvmul", at, bt), T: a.T}
	case "/":
		if q, _, ok := divByConst(e.st, at, bt, signed); ok && !at.bound {
			return TV{V: q, T: a.T}
		}
		if signed {
			return TV{V: BVBin("bvsdiv", at, bt), T: a.T}
		}
		return TV{V: BVBin("bvudiv", at, bt), T: a.T}
	case "%":
		if _, r, ok := divByConst(e.st, at, bt, signed); ok && !at.bound {
			return TV{V: r, T: a.T}
		}
		if signed {
			return TV{V: BVBin("bvsrem", at, bt), T: a.T}
		}
		return TV{V: BVBin("bvurem", at, bt), T: a.T}
	case "&":
		return TV{V: BVBin("bvand", at, bt), T: a.T}
	case "|":
		return TV{V: BVBin("bvor", at, bt), T: a.T}
	case "^":
		if at.Sort == SBool {
			return boolTV(Not(Eq(at, bt)))
		}
		return TV{V: BVBin("bvxor", at, bt), T: a.T}
	case "&^":
		return TV{V: BVBin("bvand", at, BVNot(bt)), T: a.T}
	case "<", "<=", ">", ">=":
		p := "bvu"
		if signed {
			p = "bvs"
		}
		return boolTV(BVCmp(p+map[string]string{"<": "lt", "<=": "le", ">": "gt", ">=": "ge"}[n.Op], at, bt))
	}
	sfail("binary op %s", n.Op)
	return TV{}
}

func sameShape(a, b Value) bool {
	switch x := a.(type) {
	case *Term:
		y, ok := b.(*Term)
		return ok && x.Sort == y.Sort
	case *SliceV:
		_, ok := b.(*SliceV)
		return ok
	case *IfaceV:
		_, ok := b.(*IfaceV)
		return ok
	case *TupleV:
		y, ok := b.(*TupleV)
		return ok && len(x.Elems) == len(y.Elems)
	case *FuncV:
		_, ok := b.(*FuncV)
		return ok
	}
	return false
}

func (e *SpecEnv) evalSel(n *Node) TV {
	// spec.xxx handled by evalCall; here: field access
	x := e.eval(n.Args[0])
	t := x.T
	if t == nil {
		sfail("selector .%s on untyped value", n.Name)
	}
	if pt, ok := t.Underlying().(*types.Pointer); ok {
		st, ok := pt.Elem().Underlying().(*types.Struct)
		if !ok {
			sfail("selector .%s on pointer to non-struct %s", n.Name, t)
		}
		for i := 0; i < st.NumFields(); i++ {
			if st.Field(i).Name() == n.Name {
				return TV{V: e.st.Load(st.Field(i).Type(), FldAddr(x.V.(*Term), i)), T: st.Field(i).Type()}
			}
		}
		sfail("no field %s in %s", n.Name, t)
	}
	if st, ok := t.Underlying().(*types.Struct); ok {
		for i := 0; i < st.NumFields(); i++ {
			if st.Field(i).Name() == n.Name {
				return TV{V: x.V.(*TupleV).Elems[i], T: st.Field(i).Type()}
			}
		}
		sfail("no field %s in %s", n.Name, t)
	}
	sfail("selector .%s on %s", n.Name, t)
	return TV{}
}

func (e *SpecEnv) toIdx(v TV) *Term {
	if v.U != nil {
		return BVConst(v.U, 64)
	}
	t := v.V.(*Term)
	if isSigned(v.T) {
		return SignExt(t, 64)
	}
	return ZeroExt(t, 64)
}

func (e *SpecEnv) evalIndex(n *Node) TV {
	x := e.eval(n.Args[0])
	var i *Term
	if _, isMap := x.T.Underlying().(*types.Map); !isMap {
		i = e.toIdx(e.eval(n.Args[1]))
	}
	switch u := x.T.Underlying().(type) {
	case *types.Slice:
		s := x.V.(*SliceV)
		return TV{V: e.st.Load(u.Elem(), s.ElemAddr(i)), T: u.Elem()}
	case *types.Array:
		tv := x.V.(*TupleV)
		if i.IsConst() {
			k := i.Val.Int64()
			if k < 0 || k >= int64(len(tv.Elems)) {
				sfail("constant index out of range")
			}
			return TV{V: tv.Elems[k], T: u.Elem()}
		}
		var r Value = tv.Elems[len(tv.Elems)-1]
		for k := len(tv.Elems) - 2; k >= 0; k-- {
			r = IteValue(Eq(i, BVc(int64(k), 64)), tv.Elems[k], r)
		}
		return TV{V: r, T: u.Elem()}
	case *types.Pointer:
		if ar, ok := u.Elem().Underlying().(*types.Array); ok {
			return TV{V: e.st.Load(ar.Elem(), ElemAddr(x.V.(*Term), i)), T: ar.Elem()}
		}
	case *types.Tuple:
		if !i.IsConst() {
			sfail("tuple index must be constant")
		}
		k := int(i.Val.Int64())
		return TV{V: x.V.(*TupleV).Elems[k], T: u.At(k).Type()}
	case *types.Map:
		kv := e.eval(n.Args[1])
		if kv.U != nil {
			kv = e.coerce(kv, u.Key())
		}
		va, _ := mapEntry(x.V.(*Term), keyToBV(kv.V, u.Key()))
		return TV{V: e.st.Load(u.Elem(), va), T: u.Elem()}
	}
	sfail("index on %s", x.T)
	return TV{}
}

func (e *SpecEnv) evalSlice(n *Node) TV {
	x := e.eval(n.Args[0])
	var s *SliceV
	var et types.Type
	switch u := x.T.Underlying().(type) {
	case *types.Slice:
		s = x.V.(*SliceV)
		et = x.T
		_ = u
	case *types.Pointer:
		ar, ok := u.Elem().Underlying().(*types.Array)
		if !ok {
			sfail("slice of %s", x.T)
		}
		s = &SliceV{Base: x.V.(*Term), Off: BVc(0, 64), Len: BVc(ar.Len(), 64), Cap: BVc(ar.Len(), 64)}
		et = types.NewSlice(ar.Elem())
	default:
		sfail("slice of %s", x.T)
	}
	lo := BVc(0, 64)
	if n.Args[1] != nil {
		lo = e.toIdx(e.eval(n.Args[1]))
	}
	hi := s.Len
	if n.Args[2] != nil {
		hi = e.toIdx(e.eval(n.Args[2]))
	}
	return TV{V: &SliceV{Base: s.Base, Off: BVBin("bvadd", s.Off, lo), Len: BVBin("bvsub", hi, lo), Cap: BVBin("bvsub", s.Cap, lo)}, T: et}
}

func (e *SpecEnv) convertTo(v TV, t types.Type) TV {
	if v.U != nil {
		return e.coerce(v, t)
	}
	if kindOf(t) != KScalar || kindOf(v.T) != KScalar {
		// named <-> unnamed identical underlying
		if types.Identical(t.Underlying(), v.T.Underlying()) {
			return TV{V: v.V, T: t}
		}
		sfail("conversion %s -> %s", v.T, t)
	}
	x := v.V.(*Term)
	switch {
	case isInteger(v.T) && isInteger(t):
		w := scalarSort(t).Width()
		if isSigned(v.T) {
			return TV{V: SignExt(x, w), T: t}
		}
		return TV{V: ZeroExt(x, w), T: t}
	case isInteger(v.T) && isFloat(t):
		return TV{V: FPFromInt(x, isSigned(v.T), scalarSort(t)), T: t}
	case isFloat(v.T) && isInteger(t):
		return TV{V: FPToInt(x, isSigned(t), scalarSort(t).Width()), T: t}
	case isFloat(v.T) && isFloat(t):
		return TV{V: FPToFP(x, scalarSort(t)), T: t}
	case x.Sort == scalarSort(t):
		return TV{V: x, T: t}
	case x.Sort == SBool && isInteger(t):
		w := scalarSort(t).Width()
		return TV{V: Ite(x, BVc(1, w), BVc(0, w)), T: t}
	}
	sfail("conversion %s -> %s", v.T, t)
	return TV{}
}

func (e *SpecEnv) evalCall(n *Node) TV {
	callee := n.Args[0]
	args := n.Args[1:]
	name := ""
	switch callee.Kind {
	case "ident":
		name = callee.Name
	case "sel":
		if callee.Args[0].Kind == "ident" && callee.Args[0].Name == "spec" {
			name = callee.Name
		} else {
			sfail("method calls are not supported in specs")
		}
	case "paren":
		// (*T)(x) style conversions unsupported
		sfail("unsupported callee")
	}
	switch name {
	case "len", "cap":
		x := e.eval(args[0])
		switch v := x.V.(type) {
		case *SliceV:
			if name == "len" {
				return TV{V: v.Len, T: tInt}
			}
			return TV{V: v.Cap, T: tInt}
		case *TupleV:
			return TV{U: big.NewInt(int64(len(v.Elems)))}
		case *Term:
			if isString(x.T) {
				return TV{V: e.ex.eng.strLen(v), T: tInt}
			}
			if _, ok := x.T.Underlying().(*types.Map); ok {
				return TV{V: e.st.loadScalar(BV(64), mapLenAddr(v)), T: tInt}
			}
		}
		sfail("len of %s", x.T)
	case "old":
		if e.old == nil {
			sfail("old() not available here")
		}
		n2 := *e
		n2.st = e.old
		return n2.eval(args[0])
	case "entry":
		if e.loopEntry == nil {
			sfail("entry() outside a loop clause")
		}
		n2 := *e
		n2.st = e.loopEntry
		return n2.eval(args[0])
	case "prev":
		if e.prevSt == nil {
			sfail("prev() outside a loop step clause")
		}
		n2 := *e
		n2.st = e.prevSt
		n2.vars = map[string]TV{}
		for k, v := range e.vars { // bound variables of enclosing quantifiers stay visible
			n2.vars[k] = v
		}
		for k, v := range e.prevVars {
			if cur, ok := e.vars[k]; ok {
				if ct, isT := cur.V.(*Term); isT && ct.Op == "bvar" {
					continue
				}
			}
			n2.vars[k] = v
		}
		n2.prevSt = nil
		return n2.eval(args[0])
	case "callres":
		// callres("callee", k): results of the k-th call of that function on this path
		if len(args) != 2 || args[0].Kind != "str" {
			sfail("callres(\"callee\", k)")
		}
		k := e.eval(args[1])
		if k.U == nil {
			sfail("callres: constant index expected")
		}
		log := e.st.callLog[args[0].Name]
		if int(k.U.Int64()) >= len(log) {
			sfail("callres: %s was called only %d times on this path", args[0].Name, len(log))
		}
		return log[k.U.Int64()]
	case "ite":
		c := e.eval(args[0]).V.(*Term)
		a, b := e.unify(e.eval(args[1]), e.eval(args[2]))
		if a.U != nil {
			a, b = e.coerce(a, tInt), e.coerce(b, tInt)
		}
		return TV{V: IteValue(c, a.V, b.V), T: a.T}
	case "fresh":
		x := e.eval(args[0])
		var rg *Term
		switch v := x.V.(type) {
		case *SliceV:
			rg = Rg(v.Base)
		case *Term:
			rg = Rg(v)
		case *IfaceV:
			rg = Rg(v.Data)
		default:
			sfail("fresh of %s", x.T)
		}
		return boolTV(IntCmp(">", rg, IntConst(e.freshBase)))
	case "sext":
		// sext(x, bits): sign-extend the low `bits` bits of x to x's width
		x := e.eval(args[0])
		k := e.eval(args[1])
		if k.U == nil || x.U != nil {
			sfail("sext(x, const)")
		}
		t := x.V.(*Term)
		return TV{V: SignExt(Extract(int(k.U.Int64())-1, 0, t), t.Sort.Width()), T: x.T}
	case "bits":
		// bits(x, hi, lo): extract, zero-extended to x's width
		x := e.eval(args[0])
		hi, lo := e.eval(args[1]), e.eval(args[2])
		if hi.U == nil || lo.U == nil || x.U != nil {
			sfail("bits(x, const, const)")
		}
		t := x.V.(*Term)
		return TV{V: ZeroExt(Extract(int(hi.U.Int64()), int(lo.U.Int64()), t), t.Sort.Width()), T: x.T}
	case "bit":
		x := e.eval(args[0])
		k := e.eval(args[1])
		t := x.V.(*Term)
		if k.U != nil {
			return boolTV(Eq(Extract(int(k.U.Int64()), int(k.U.Int64()), t), BVc(1, 1)))
		}
		kt := ZeroExt(k.V.(*Term), t.Sort.Width())
		if kt.Sort.Width() != t.Sort.Width() {
			kt = Extract(t.Sort.Width()-1, 0, k.V.(*Term))
		}
		return boolTV(Eq(BVBin("bvand", BVBin("bvlshr", t, kt), BVc(1, t.Sort.Width())), BVc(1, t.Sort.Width())))
	case "istype":
		x := e.eval(args[0])
		iv, ok := x.V.(*IfaceV)
		if !ok || args[1].Kind != "str" {
			sfail("istype(iface, \"T\")")
		}
		t := e.typeFromString(args[1].Name)
		if t == nil {
			sfail("unknown type %q", args[1].Name)
		}
		return boolTV(Eq(iv.Tag, e.ex.eng.tags.Tag(t)))
	case "as":
		x := e.eval(args[0])
		iv, ok := x.V.(*IfaceV)
		if !ok || args[1].Kind != "str" {
			sfail("as(iface, \"T\")")
		}
		t := e.typeFromString(args[1].Name)
		if t == nil {
			sfail("unknown type %q", args[1].Name)
		}
		if _, isPtr := t.Underlying().(*types.Pointer); isPtr {
			return TV{V: iv.Data, T: t}
		}
		return TV{V: e.st.Load(t, iv.Data), T: t}
	case "funcid":
		if args[0].Kind != "str" {
			sfail("funcid(\"name\")")
		}
		full := e.pkg.Path() + "." + args[0].Name
		fn := e.ex.eng.allFuncs[full]
		if fn == nil {
			sfail("funcid: unknown function %s", full)
		}
		return TV{V: &FuncV{Fn: fn, Sym: e.ex.eng.funcID(fn)}, T: fn.Signature}
	case "as_nonnil":
		// the pointer held by an interface value is not nil (excludes typed-nil payloads)
		x := e.eval(args[0])
		iv, ok := x.V.(*IfaceV)
		if !ok {
			sfail("as_nonnil(interface)")
		}
		return boolTV(Neq(Rg(iv.Data), IntConst(0)))
	case "sameregion":
		rgOf := func(v TV) *Term {
			switch x := v.V.(type) {
			case *SliceV:
				return Rg(x.Base)
			case *Term:
				if x.Sort == SAddr {
					return Rg(x)
				}
			case *IfaceV:
				return Rg(x.Data)
			}
			sfail("sameregion: pointer, slice or interface expected")
			return nil
		}
		return boolTV(Eq(rgOf(e.eval(args[0])), rgOf(e.eval(args[1]))))
	case "eqbytes", "eqbytes_old":
		// eqbytes(a, b): byte slices of equal length and content (address-quantified);
		// eqbytes_old(a, b): content of b taken in the entry state
		a, ok1 := e.eval(args[0]).V.(*SliceV)
		b, ok2 := e.eval(args[1]).V.(*SliceV)
		if !ok1 || !ok2 {
			sfail("eqbytes: byte slices expected")
		}
		sb := e.st
		if name == "eqbytes_old" {
			if e.old == nil {
				sfail("eqbytes_old: no entry state here")
			}
			sb = e.old
		}
		if name == "eqbytes" {
			if g, ok := eqBytesSegs(e.st, a, b); ok {
				return boolTV(And(Eq(a.Len, b.Len), g))
			}
		}
		return boolTV(And(Eq(a.Len, b.Len), contentEqMem(e.st, sb, a, b, a.Len)))
	case "samebase":
		a, b := e.eval(args[0]).V.(*SliceV), e.eval(args[1]).V.(*SliceV)
		return boolTV(And(Eq(a.Base, b.Base), Eq(a.Off, b.Off)))
	case "haskey":
		m := e.eval(args[0])
		mt, ok := m.T.Underlying().(*types.Map)
		if !ok {
			sfail("haskey on %s", m.T)
		}
		k := e.eval(args[1])
		if k.U != nil {
			k = e.coerce(k, mt.Key())
		}
		_, pa := mapEntry(m.V.(*Term), keyToBV(k.V, mt.Key()))
		return boolTV(And(Neq(Rg(m.V.(*Term)), IntConst(0)), e.st.loadScalar(SBool, pa)))
	}
	// type conversion?
	if callee.Kind == "ident" {
		if t := e.lookupType(name); t != nil && len(args) == 1 {
			return e.convertTo(e.eval(args[0]), t)
		}
	}
	// macro
	if m, ok := e.ex.eng.cf.Macros[name]; ok {
		if len(m.Params) != len(args) {
			sfail("macro %s: %d args expected", name, len(m.Params))
		}
		env := &SpecEnv{ex: e.ex, vars: map[string]TV{}, st: e.st, old: e.old, pkg: e.pkg, mode: e.mode, freshBase: e.freshBase}
		for i, p := range m.Params {
			env.vars[p] = e.eval(args[i])
		}
		return env.eval(m.Body)
	}
	// builtin spec functions supplied by the engine
	if f, ok := specBuiltins[name]; ok {
		var vs []TV
		for _, a := range args {
			vs = append(vs, e.eval(a))
		}
		return f(e, vs)
	}
	sfail("unknown function %q in spec", name)
	return TV{}
}

var specBuiltins = map[string]func(e *SpecEnv, args []TV) TV{}

// lvalAddr: address and type of an addressable expression (x.F, x.F.G, *p, s[i]).
func (e *SpecEnv) lvalAddr(n *Node) (*Term, types.Type) {
	switch n.Kind {
	case "ident":
		if a, ok := e.addrs[n.Name]; ok {
			return a.V.(*Term), a.T
		}
	case "paren":
		return e.lvalAddr(n.Args[0])
	case "unary":
		if n.Op == "*" {
			p := e.eval(n.Args[0])
			pt, ok := p.T.Underlying().(*types.Pointer)
			if !ok {
				sfail("deref of non-pointer")
			}
			return p.V.(*Term), pt.Elem()
		}
	case "sel":
		var base *Term
		var bt types.Type
		x := func() (r TV) {
			defer func() {
				if rec := recover(); rec != nil {
					if _, ok := rec.(specErr); ok {
						r = TV{}
						return
					}
					panic(rec)
				}
			}()
			return e.eval(n.Args[0])
		}()
		if x.T != nil {
			if pt, ok := x.T.Underlying().(*types.Pointer); ok {
				base, bt = x.V.(*Term), pt.Elem()
			}
		}
		if base == nil {
			base, bt = e.lvalAddr(n.Args[0])
		}
		st, ok := bt.Underlying().(*types.Struct)
		if !ok {
			sfail("selector on non-struct lvalue")
		}
		for i := 0; i < st.NumFields(); i++ {
			if st.Field(i).Name() == n.Name {
				return FldAddr(base, i), st.Field(i).Type()
			}
		}
		sfail("no field %s", n.Name)
	case "index":
		x := e.eval(n.Args[0])
		if sl, ok := x.T.Underlying().(*types.Slice); ok {
			return x.V.(*SliceV).ElemAddr(e.toIdx(e.eval(n.Args[1]))), sl.Elem()
		}
	}
	sfail("expression is not addressable")
	return nil, nil
}

// expandBoundedForall: forall i :: lo <= i && i < hi ==> body, with constant lo, hi (hi-lo <= 64),
// is expanded into the conjunction of its instances (keeps small cases quantifier-free).
func (e *SpecEnv) expandBoundedForall(n *Node) (TV, bool) {
	if n.Kind != "forall" || len(n.Binders) != 1 {
		return TV{}, false
	}
	body := n.Args[0]
	for body.Kind == "paren" {
		body = body.Args[0]
	}
	if body.Kind != "binary" || body.Op != "==>" {
		return TV{}, false
	}
	g := body.Args[0]
	for g.Kind == "paren" {
		g = g.Args[0]
	}
	if g.Kind != "binary" || g.Op != "&&" {
		return TV{}, false
	}
	name := n.Binders[0].Name
	isVar := func(x *Node) bool { return x.Kind == "ident" && x.Name == name }
	l, r := g.Args[0], g.Args[1]
	if !(l.Kind == "binary" && l.Op == "<=" && isVar(l.Args[1]) && r.Kind == "binary" && r.Op == "<" && isVar(r.Args[0])) {
		return TV{}, false
	}
	constOf := func(x *Node) (int64, bool) {
		defer func() { recover() }()
		v := e.eval(x)
		if v.U != nil && v.U.IsInt64() {
			return v.U.Int64(), true
		}
		if t, ok := v.V.(*Term); ok {
			t = Subst(t, e.st.substMap())
			if t.IsConst() && t.Sort.IsBV() {
				return t.Signed().Int64(), true
			}
		}
		return 0, false
	}
	lo, ok1 := constOf(l.Args[0])
	hi, ok2 := constOf(r.Args[1])
	if !ok1 || !ok2 || hi-lo > 64 || hi < lo {
		return TV{}, false
	}
	t := e.lookupType(n.Binders[0].Type)
	if t == nil {
		return TV{}, false
	}
	var cs []*Term
	for k := lo; k < hi; k++ {
		env := e.with(name, TV{V: BVc(k, scalarSort(t).Width()), T: t})
		v := env.eval(body.Args[1])
		b, ok := v.V.(*Term)
		if !ok || b.Sort != SBool {
			return TV{}, false
		}
		cs = append(cs, b)
	}
	return boolTV(And(cs...)), true
}
