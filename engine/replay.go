package main

// Counterexample replay: solver model -> concrete Go inputs -> `go test -overlay`
// on the real package -> verdict by evaluating the violated clause on the
// observed outputs.

import (
	"encoding/json"
	"fmt"
	"go/types"
	"math/big"
	"os"
	"os/exec"
	"path/filepath"
	"regexp"
	"sort"
	"strings"
	"time"

	"golang.org/x/tools/go/ssa"
)

type replayCtx struct {
	e        *Engine
	o        *Obligation
	fn       *ssa.Function
	pkg      *types.Package
	imports  map[string]string // path -> name
	vals     map[int]string    // term id -> SMT value text
	pending  map[int]*Term
	base     string // obligation script prefix (assumptions + negated goal) reused for value queries
	entry    *State
	log      []string
	termByID map[int]*Term
}

func (rc *replayCtx) qualifier(p *types.Package) string {
	if p == rc.pkg {
		return ""
	}
	rc.imports[p.Path()] = p.Name()
	return p.Name()
}

func (rc *replayCtx) typeStr(t types.Type) string { return types.TypeString(t, rc.qualifier) }

// want returns the concrete value of a scalar term if known, else schedules it.
func (rc *replayCtx) want(t *Term) (string, bool) {
	if t.IsConst() {
		return constSMT(t), true
	}
	if v, ok := rc.vals[t.id]; ok {
		return v, true
	}
	rc.pending[t.id] = t
	rc.termByID[t.id] = t
	return "", false
}

func parseSMTInt(v string) (*big.Int, bool) {
	v = strings.TrimSpace(v)
	switch {
	case strings.HasPrefix(v, "#x"):
		n, ok := new(big.Int).SetString(v[2:], 16)
		return n, ok
	case strings.HasPrefix(v, "#b"):
		n, ok := new(big.Int).SetString(v[2:], 2)
		return n, ok
	case strings.HasPrefix(v, "(- "):
		n, ok := new(big.Int).SetString(strings.TrimSuffix(v[3:], ")"), 10)
		if ok {
			n.Neg(n)
		}
		return n, ok
	case v == "true":
		return big.NewInt(1), true
	case v == "false":
		return big.NewInt(0), true
	}
	n, ok := new(big.Int).SetString(v, 10)
	return n, ok
}

// query asks the solver for the values of the pending terms under the obligation's
// counterexample constraints, pinning the values already known.
func (rc *replayCtx) query() bool {
	if len(rc.pending) == 0 {
		return true
	}
	s := NewScript()
	var asserts []string
	for _, a := range relevantAssumes(rc.o) {
		asserts = append(asserts, s.Ref(a))
	}
	asserts = append(asserts, s.Ref(Not(rc.o.Goal)))
	// pin known values
	var ids []int
	for id := range rc.vals {
		ids = append(ids, id)
	}
	sort.Ints(ids)
	for _, id := range ids {
		if t := rc.termByID[id]; t != nil {
			asserts = append(asserts, fmt.Sprintf("(= %s %s)", s.Ref(t), rc.vals[id]))
		}
	}
	var pend []*Term
	for _, t := range rc.pending {
		pend = append(pend, t)
	}
	sort.Slice(pend, func(i, j int) bool { return pend[i].id < pend[j].id })
	var refs []string
	for _, t := range pend {
		refs = append(refs, s.Ref(t))
	}
	tail := "(check-sat)\n"
	for _, r := range refs {
		tail += "(get-value (" + r + "))\n"
	}
	// unconstrained input bytes: prefer non-zero values, so that a stray write of a zero (or a missing
	// copy) is visible on the real code; fall back to any model
	var nz []string
	for i, t := range pend {
		if t.Sort == BV(8) {
			nz = append(nz, fmt.Sprintf("(not (= %s #x00))", refs[i]))
		}
	}
	st, out := "", ""
	if len(nz) > 0 {
		script := s.Render("", "", nil, append(append([]string{}, asserts...), nz...), tail)
		st, out, _ = runSolver(solverConfigs(10, 0)[0], script, 12*time.Second)
	}
	if st != "sat" {
		script := s.Render("", "", nil, asserts, tail)
		st, out, _ = runSolver(solverConfigs(20, 0)[0], script, 25*time.Second)
	}
	if st != "sat" {
		rc.log = append(rc.log, "value query: "+st)
		return false
	}
	lines := strings.Split(out, "\n")
	k := 0
	for _, ln := range lines[1:] {
		ln = strings.TrimSpace(ln)
		if !strings.HasPrefix(ln, "((") || k >= len(pend) {
			continue
		}
		// ((ref value))
		inner := strings.TrimSuffix(strings.TrimPrefix(ln, "(("), "))")
		ref := refs[k]
		if !strings.HasPrefix(inner, ref) {
			// values may span formats; fallback: last token
		}
		val := strings.TrimSpace(strings.TrimPrefix(inner, ref))
		if _, ok := parseSMTInt(val); ok {
			rc.vals[pend[k].id] = val
			rc.termByID[pend[k].id] = pend[k]
		} else if pend[k].Sort.IsFP() {
			rc.vals[pend[k].id] = val
			rc.termByID[pend[k].id] = pend[k]
		}
		k++
	}
	rc.pending = map[int]*Term{}
	return true
}

type cval struct {
	expr string      // Go expression
	js   interface{} // same value in the dump format (for building concrete states)
}

// concretise builds a Go expression for value v of type t from the model. ok=false if
// more model values are needed (scheduled) or the value cannot be represented.
func (rc *replayCtx) concretise(t types.Type, v Value, depth int) (string, bool) {
	if depth > 20 {
		rc.log = append(rc.log, "value nested too deeply to rebuild")
		return "", false
	}
	switch kindOf(t) {
	case KScalar:
		tm := v.(*Term)
		switch {
		case tm.Sort == SBool:
			s, ok := rc.want(tm)
			if !ok {
				return "", false
			}
			return s, true
		case tm.Sort.IsBV() && isString(t):
			s, ok := rc.want(tm)
			if !ok {
				return "", false
			}
			n, _ := parseSMTInt(s)
			if str, isLit := rc.e.strByID[n.Int64()]; isLit {
				return fmt.Sprintf("%s(%q)", rc.typeStr(t), str), true
			}
			return fmt.Sprintf("%s(\"\")", rc.typeStr(t)), true
		case tm.Sort.IsBV():
			s, ok := rc.want(tm)
			if !ok {
				return "", false
			}
			n, _ := parseSMTInt(s)
			if isSigned(t) {
				n = toSigned(n, tm.Sort.Width())
			}
			return fmt.Sprintf("%s(%s)", rc.typeStr(t), n.String()), true
		case tm.Sort.IsFP():
			return "", false
		case tm.Sort == SAddr:
			pt, isPtr := t.Underlying().(*types.Pointer)
			if !isPtr {
				return "", false
			}
			rgs, ok := rc.want(Rg(tm))
			if !ok {
				return "", false
			}
			if n, _ := parseSMTInt(rgs); n.Sign() == 0 {
				return "nil", true
			}
			inner, ok := rc.concretise(pt.Elem(), rc.entry.Load(pt.Elem(), tm), depth+1)
			if !ok {
				return "", false
			}
			return fmt.Sprintf("func() %s { x := %s; return &x }()", rc.typeStr(t), inner), true
		}
	case KSlice:
		s := v.(*SliceV)
		rgs, ok1 := rc.want(Rg(s.Base))
		ls, ok2 := rc.want(s.Len)
		cs, ok3 := rc.want(s.Cap)
		if !ok1 || !ok2 || !ok3 {
			return "", false
		}
		if n, _ := parseSMTInt(rgs); n.Sign() == 0 {
			return "nil", true
		}
		ln, _ := parseSMTInt(ls)
		cp, _ := parseSMTInt(cs)
		if !ln.IsInt64() || ln.Int64() > 2048 {
			rc.log = append(rc.log, "slice too long to replay: "+ln.String())
			return "", false
		}
		n := ln.Int64()
		spare := int64(0)
		if cp.Cmp(ln) > 0 {
			spare = 32
			if d := new(big.Int).Sub(cp, ln); d.IsInt64() && d.Int64() < 32 {
				spare = d.Int64()
			}
		}
		et := t.Underlying().(*types.Slice).Elem()
		var elems []string
		all := true
		for i := int64(0); i < n; i++ {
			e, ok := rc.concretise(et, rc.entry.Load(et, s.ElemAddr(BVc(i, 64))), depth+1)
			if !ok {
				all = false
				continue
			}
			elems = append(elems, e)
		}
		if !all {
			return "", false
		}
		ts := rc.typeStr(t)
		fill := ""
		if b, isB := et.Underlying().(*types.Basic); isB && b.Kind() == types.Uint8 && spare > 0 {
			fill = fmt.Sprintf("for i := %d; i < %d; i++ { s[i] = 0xAA }; ", n, n+spare)
		}
		return fmt.Sprintf("func() %s { s := make(%s, %d); copy(s, %s{%s}); %sreturn s[:%d] }()", ts, ts, n+spare, ts, strings.Join(elems, ", "), fill, n), true
	case KStruct:
		st := t.Underlying().(*types.Struct)
		tv := v.(*TupleV)
		var fs []string
		all := true
		for i := 0; i < st.NumFields(); i++ {
			if st.Field(i).Name() == "_" {
				continue
			}
			e, ok := rc.concretise(st.Field(i).Type(), tv.Elems[i], depth+1)
			if !ok {
				all = false
				continue
			}
			fs = append(fs, st.Field(i).Name()+": "+e)
		}
		if !all {
			return "", false
		}
		return fmt.Sprintf("%s{%s}", rc.typeStr(t), strings.Join(fs, ", ")), true
	case KArray:
		ar := t.Underlying().(*types.Array)
		tv := v.(*TupleV)
		var es []string
		all := true
		for i := int64(0); i < ar.Len(); i++ {
			e, ok := rc.concretise(ar.Elem(), tv.Elems[i], depth+1)
			if !ok {
				all = false
				continue
			}
			es = append(es, e)
		}
		if !all {
			return "", false
		}
		return fmt.Sprintf("%s{%s}", rc.typeStr(t), strings.Join(es, ", ")), true
	case KIface:
		iv := v.(*IfaceV)
		ts, ok := rc.want(iv.Tag)
		if !ok {
			return "", false
		}
		n, _ := parseSMTInt(ts)
		if n.Sign() == 0 {
			return "nil", true
		}
		if n.Cmp(rc.e.errTag().Val) == 0 {
			rc.imports["errors"] = "errors"
			return "errors.New(\"replay\")", true
		}
		dt := rc.e.typeByTag(BVConst(n, 32))
		if dt == nil {
			rc.log = append(rc.log, "interface with unknown dynamic type tag")
			return "", false
		}
		var inner Value
		if _, isPtr := dt.Underlying().(*types.Pointer); isPtr {
			inner = iv.Data
		} else {
			inner = rc.entry.Load(dt, iv.Data)
		}
		e, ok := rc.concretise(dt, inner, depth+1)
		if !ok {
			return "", false
		}
		return fmt.Sprintf("%s(%s)", rc.typeStr(t), e), true
	}
	return "", false
}

const replayDumper = `
func zzDump(v reflect.Value) interface{} {
	switch v.Kind() {
	case reflect.Bool:
		return v.Bool()
	case reflect.Int, reflect.Int8, reflect.Int16, reflect.Int32, reflect.Int64:
		return fmt.Sprintf("%d", v.Int())
	case reflect.Uint, reflect.Uint8, reflect.Uint16, reflect.Uint32, reflect.Uint64, reflect.Uintptr:
		return fmt.Sprintf("%d", v.Uint())
	case reflect.Float32, reflect.Float64:
		return fmt.Sprintf("f%d", math.Float64bits(v.Float()))
	case reflect.String:
		return map[string]interface{}{"str": v.String()}
	case reflect.Slice:
		if v.IsNil() {
			return nil
		}
		out := []interface{}{}
		for i := 0; i < v.Len(); i++ {
			out = append(out, zzDump(v.Index(i)))
		}
		return map[string]interface{}{"elems": out, "cap": v.Cap()}
	case reflect.Array:
		out := []interface{}{}
		for i := 0; i < v.Len(); i++ {
			out = append(out, zzDump(v.Index(i)))
		}
		return out
	case reflect.Struct:
		out := []interface{}{}
		for i := 0; i < v.NumField(); i++ {
			out = append(out, zzDump(v.Field(i)))
		}
		return out
	case reflect.Ptr:
		if v.IsNil() {
			return nil
		}
		return map[string]interface{}{"ptr": zzDump(v.Elem())}
	case reflect.Interface:
		if v.IsNil() {
			return nil
		}
		if v.Type().String() == "error" {
			return map[string]interface{}{"err": "non-nil"}
		}
		return map[string]interface{}{"type": v.Elem().Type().String(), "val": zzDump(v.Elem())}
	}
	return map[string]interface{}{"unsupported": v.Kind().String()}
}
`

type replayOutcome struct {
	Panicked bool                   `json:"panicked"`
	Panic    string                 `json:"panic,omitempty"`
	Dumps    map[string]interface{} `json:"dumps,omitempty"`
	Asserts  map[string]bool        `json:"asserts,omitempty"`
	Raw      string                 `json:"raw,omitempty"`
}

var termByIDdummy = 0

func replayObligation(e *Engine, d *Discharged) (bool, interface{}) {
	info := map[string]interface{}{}
	smallModel(d)
	o := d.Obl
	if d.Res.Status != "sat" || len(d.Res.Model) == 0 {
		candidateModel(d)
		o = d.Obl
	}
	if (d.Res.Status != "sat" || len(d.Res.Model) == 0) && !d.Res.Candidate {
		info["status"] = "no model from the solver (" + d.Res.Status + ")"
		return false, info
	}
	if d.Res.Candidate {
		info["model_kind"] = "candidate (quantifier-free approximation of the obligation)"
	}
	if o.ex == nil || o.ex.root == nil {
		info["status"] = "no replay information"
		return false, info
	}
	fn := o.ex.root
	rc := &replayCtx{e: e, o: o, fn: fn, pkg: fn.Pkg.Pkg, imports: map[string]string{}, vals: map[int]string{}, pending: map[int]*Term{},
		entry: o.ex.entry, termByID: map[int]*Term{}}
	// seed with the model's scalar variables
	seen := map[int]bool{}
	var walk func(t *Term)
	walk = func(t *Term) {
		if seen[t.id] {
			return
		}
		seen[t.id] = true
		if t.Op == "var" && !t.Sort.IsArray() {
			if val, ok := d.Res.Model[t.Name]; ok {
				rc.vals[t.id] = val
				rc.termByID[t.id] = t
			}
		}
		for _, a := range t.Args {
			walk(a)
		}
	}
	for _, a := range o.Assumes {
		walk(a)
	}
	walk(o.Goal)
	var argExprs []string
	okAll := false
	for round := 0; round < 24; round++ {
		argExprs = argExprs[:0]
		okAll = true
		for _, in := range o.ex.inputs {
			s, ok := rc.concretise(in.Type, in.V, 0)
			if !ok {
				okAll = false
			}
			argExprs = append(argExprs, s)
		}
		if okAll {
			break
		}
		if len(rc.pending) == 0 {
			break
		}
		if !rc.query() {
			break
		}
	}
	if !okAll {
		rc.log = append(rc.log, fmt.Sprintf("%d values still pending after the last value query", len(rc.pending)))
		info["status"] = "could not build concrete inputs from the model"
		info["notes"] = rc.log
		return false, info
	}
	src, call := rc.testSource(argExprs)
	info["call"] = call
	info["inputs"] = argExprs
	out, err := rc.runTest(src)
	info["test_output"] = truncate(out, 3000)
	if err != nil {
		info["status"] = "replay test could not be run: " + err.Error()
		return false, info
	}
	oc := parseReplayOutput(out)
	info["observed"] = oc
	confirmed, why := rc.verdict(oc)
	info["status"] = why
	info["confirmed"] = confirmed
	return confirmed, info
}

func (rc *replayCtx) isLemma() bool { return strings.HasPrefix(rc.fn.Name(), "lemma") }

func (rc *replayCtx) testSource(args []string) (string, string) {
	fn := rc.fn
	sig := fn.Signature
	var sb strings.Builder
	var call string
	names := []string{}
	var decl strings.Builder
	for i, in := range rc.o.ex.inputs {
		n := fmt.Sprintf("zzarg%d", i)
		names = append(names, n)
		fmt.Fprintf(&decl, "\tvar %s %s = %s\n", n, rc.typeStr(in.Type), args[i])
	}
	if sig.Recv() != nil {
		call = fmt.Sprintf("%s.%s(%s)", names[0], fn.Name(), strings.Join(names[1:], ", "))
	} else {
		call = fmt.Sprintf("%s(%s)", fn.Name(), strings.Join(names, ", "))
	}
	nres := sig.Results().Len()
	var resNames []string
	for i := 0; i < nres; i++ {
		resNames = append(resNames, fmt.Sprintf("zzres%d", i))
	}
	body := &strings.Builder{}
	fmt.Fprintf(body, "%s", decl.String())
	// snapshot of slice backing stores (spare capacity) before the call
	for i, in := range rc.o.ex.inputs {
		if _, isSl := in.Type.Underlying().(*types.Slice); isSl {
			fmt.Fprintf(body, "\t{ zzv := %s[:cap(%s)]; zzdump(\"pre_cap_%d\", reflect.ValueOf(&zzv).Elem()) }\n", names[i], names[i], i)
		}
	}
	if nres > 0 {
		fmt.Fprintf(body, "\t%s := %s\n", strings.Join(resNames, ", "), call)
	} else {
		fmt.Fprintf(body, "\t%s\n", call)
	}
	for i, r := range resNames {
		fmt.Fprintf(body, "\tzzdump(\"res_%d\", reflect.ValueOf(&%s).Elem())\n", i, r)
	}
	for i, in := range rc.o.ex.inputs {
		switch in.Type.Underlying().(type) {
		case *types.Pointer:
			fmt.Fprintf(body, "\tif %s != nil { zzdump(\"post_ptr_%d\", reflect.ValueOf(%s).Elem()) }\n", names[i], i, names[i])
		case *types.Slice:
			fmt.Fprintf(body, "\t{ zzv := %s[:cap(%s)]; zzdump(\"post_cap_%d\", reflect.ValueOf(&zzv).Elem()) }\n", names[i], names[i], i)
		}
	}
	rc.imports["fmt"] = "fmt"
	rc.imports["reflect"] = "reflect"
	rc.imports["math"] = "math"
	rc.imports["encoding/json"] = "json"
	rc.imports["testing"] = "testing"
	fmt.Fprintf(&sb, "package %s\n\nimport (\n", rc.pkg.Name())
	var ips []string
	for p := range rc.imports {
		ips = append(ips, p)
	}
	sort.Strings(ips)
	for _, p := range ips {
		fmt.Fprintf(&sb, "\t%s %q\n", rc.imports[p], p)
	}
	sb.WriteString(")\n\nvar _ = math.Pi\n")
	sb.WriteString(replayDumper)
	sb.WriteString(`
func zzdump(name string, v reflect.Value) {
	b, _ := json.Marshal(zzDump(v))
	fmt.Printf("ZZREPLAY %s %s\n", name, b)
}

func TestZZReplay(t *testing.T) {
	defer func() {
		if r := recover(); r != nil {
			fmt.Printf("ZZPANIC %v\n", r)
		}
		fmt.Println("ZZDONE")
	}()
`)
	sb.WriteString(body.String())
	sb.WriteString("}\n")
	return sb.String(), call
}

func (rc *replayCtx) runTest(src string) (string, error) {
	dir, err := os.MkdirTemp("", "govreplay")
	if err != nil {
		return "", err
	}
	defer os.RemoveAll(dir)
	pkgDir := filepath.Dir(rc.e.prog.Fset.Position(rc.fn.Pos()).Filename)
	testFile := filepath.Join(dir, "zz_replay_test.go")
	os.WriteFile(testFile, []byte(src), 0o644)
	replace := map[string]string{filepath.Join(pkgDir, "zz_replay_test.go"): testFile}
	tags := ""
	if rc.isLemma() {
		// lemma replay: make verifAssert observable through an overlay copy of the lemma file
		lf := filepath.Join(pkgDir, "zz_lemmas_verif.go")
		if data, err := os.ReadFile(lf); err == nil {
			s := string(data)
			re := regexp.MustCompile(`func verifAssert\(cond bool, label string\)\s*\{\}`)
			s = re.ReplaceAllString(s, "func verifAssert(cond bool, label string) { println(\"ZZASSERT\", label, cond) }")
			nf := filepath.Join(dir, "zz_lemmas_verif.go")
			os.WriteFile(nf, []byte(s), 0o644)
			replace[lf] = nf
		}
		tags = "-tags=verif"
	}
	ov, _ := json.Marshal(map[string]interface{}{"Replace": replace})
	ovFile := filepath.Join(dir, "overlay.json")
	os.WriteFile(ovFile, ov, 0o644)
	args := []string{"test", "-overlay", ovFile, "-vet=off", "-timeout", "60s", "-count=1", "-run", "TestZZReplay$", "-v"}
	if tags != "" {
		args = append(args, tags)
	}
	args = append(args, ".")
	cmd := exec.Command("go", args...)
	cmd.Dir = pkgDir
	cmd.Env = append(os.Environ(), "GOFLAGS=-mod=mod", "GOPROXY=off", "GOSUMDB=off", "GOTOOLCHAIN=local")
	out, _ := cmd.CombinedOutput()
	s := string(out)
	if !strings.Contains(s, "ZZDONE") {
		return s, fmt.Errorf("test did not complete")
	}
	return s, nil
}

func parseReplayOutput(out string) *replayOutcome {
	oc := &replayOutcome{Dumps: map[string]interface{}{}, Asserts: map[string]bool{}}
	for _, ln := range strings.Split(out, "\n") {
		ln = strings.TrimSpace(ln)
		switch {
		case strings.HasPrefix(ln, "ZZPANIC "):
			oc.Panicked = true
			oc.Panic = strings.TrimPrefix(ln, "ZZPANIC ")
		case strings.HasPrefix(ln, "ZZREPLAY "):
			parts := strings.SplitN(strings.TrimPrefix(ln, "ZZREPLAY "), " ", 2)
			if len(parts) == 2 {
				var v interface{}
				if json.Unmarshal([]byte(parts[1]), &v) == nil {
					oc.Dumps[parts[0]] = v
				}
			}
		case strings.HasPrefix(ln, "ZZASSERT "):
			f := strings.Fields(ln)
			if len(f) == 3 {
				if prev, seen := oc.Asserts[f[1]]; !seen || prev {
					oc.Asserts[f[1]] = f[2] == "true"
				}
			}
		}
	}
	return oc
}

// ---------- verdict ----------

func (rc *replayCtx) verdict(oc *replayOutcome) (bool, string) {
	o := rc.o
	switch o.Kind {
	case "safe":
		if oc.Panicked {
			return true, "the real code panics on this input: " + oc.Panic
		}
		return false, "the real code does not panic on the model input (model did not replay)"
	case "assert":
		if v, seen := oc.Asserts[o.Label]; seen && !v {
			return true, "assertion " + o.Label + " is false on the real code for this input"
		}
		if oc.Panicked {
			return true, "the real code panics on this input: " + oc.Panic
		}
		return false, "assertion holds on the real code for the model input (model did not replay)"
	case "frame":
		for k, pre := range oc.Dumps {
			if strings.HasPrefix(k, "pre_cap_") {
				post := oc.Dumps["post_cap_"+strings.TrimPrefix(k, "pre_cap_")]
				a, _ := json.Marshal(pre)
				b, _ := json.Marshal(post)
				if post != nil && string(a) != string(b) {
					return true, "memory of slice argument " + strings.TrimPrefix(k, "pre_cap_") + " (including spare capacity) changed: before=" + truncate(string(a), 300) + " after=" + truncate(string(b), 300)
				}
			}
		}
		return false, "no change of caller memory observed"
	case "post":
		if oc.Panicked {
			// a panic is the business of the safety obligations (where panic-freedom is claimed at all:
			// callees with allowpanic contracts are excluded); it says nothing about this clause
			return false, "the real code panics on the model input (" + oc.Panic + "): the clause cannot be evaluated, not counted as a counterexample"
		}
		if ok, why := rc.requiresHold(); !ok {
			return false, "the model input violates a precondition (" + why + "): not a counterexample"
		}
		return rc.evalClause(oc)
	}
	return false, "obligation kind " + o.Kind + " is not replayable"
}

// requiresHold: the preconditions of the function evaluated on the concrete entry state
func (rc *replayCtx) requiresHold() (ok bool, why string) {
	defer func() {
		if r := recover(); r != nil {
			ok, why = true, "" // not evaluable: do not reject on that ground
		}
	}()
	ct := rc.e.contractFor(rc.fn)
	if ct == nil || len(ct.Requires) == 0 {
		return true, ""
	}
	pre, args := rc.concreteEntry()
	env := &SpecEnv{ex: rc.o.ex, vars: paramBindings(rc.fn.Signature, args, nil), st: pre, pkg: rc.pkg, mode: "prove"}
	rc.o.ex.evalLets(ct, env)
	for _, r := range ct.Requires {
		g, err := env.EvalBool(r.Expr)
		if err != nil {
			continue
		}
		g = foldConcrete(g)
		if g.IsFalse() {
			return false, r.Label + ": " + r.Text
		}
	}
	return true, ""
}

// concreteEntry: entry memory and arguments under the model
func (rc *replayCtx) concreteEntry() (*State, []Value) {
	pre := newState()
	sub := map[*Term]*Term{}
	for id, v := range rc.vals {
		t := rc.termByID[id]
		if t == nil {
			continue
		}
		n, ok := parseSMTInt(v)
		if !ok {
			continue
		}
		switch {
		case t.Sort == SBool:
			sub[t] = BoolConst(n.Sign() != 0)
		case t.Sort.IsBV():
			sub[t] = BVConst(n, t.Sort.Width())
		case t.Sort == SInt:
			sub[t] = IntConst(n.Int64())
		}
	}
	var args []Value
	for _, in := range rc.o.ex.inputs {
		args = append(args, substValue(in.V, sub))
	}
	for id := range rc.vals {
		t := rc.termByID[id]
		if t != nil && t.Op == "select" && t.Args[0].Op == "var" {
			if sub[t] != nil {
				pre.storeScalar(t.Sort, Subst(t.Args[1], sub), sub[t])
			}
		}
	}
	return pre, args
}

// evalClause rebuilds concrete entry/final states from the dumps and evaluates the clause.
func (rc *replayCtx) evalClause(oc *replayOutcome) (confirmed bool, why string) {
	defer func() {
		if r := recover(); r != nil {
			confirmed, why = false, fmt.Sprintf("could not evaluate the clause on the observed outputs: %v", r)
		}
	}()
	ct := rc.e.contractFor(rc.fn)
	if ct == nil {
		return false, "no contract"
	}
	var cl *Clause
	for i := range ct.Ensures {
		if ct.Ensures[i].Label == rc.o.Label {
			cl = &ct.Ensures[i]
		}
	}
	if cl == nil {
		return false, "clause not found"
	}
	pre := newState()
	// concrete inputs: evaluate the symbolic input values under the model
	sub := map[*Term]*Term{}
	for id, v := range rc.vals {
		t := rc.termByID[id]
		if t == nil {
			continue
		}
		n, ok := parseSMTInt(v)
		if !ok {
			continue
		}
		switch {
		case t.Sort == SBool:
			sub[t] = BoolConst(n.Sign() != 0)
		case t.Sort.IsBV():
			sub[t] = BVConst(n, t.Sort.Width())
		case t.Sort == SInt:
			sub[t] = IntConst(n.Int64())
		}
	}
	concreteVal := func(v Value) Value { return substValue(v, sub) }
	var args []Value
	for _, in := range rc.o.ex.inputs {
		args = append(args, concreteVal(in.V))
	}
	// entry memory: copy the cells we know (selects over initial arrays)
	for id := range rc.vals {
		t := rc.termByID[id]
		if t != nil && t.Op == "select" && t.Args[0].Op == "var" {
			addr := Subst(t.Args[1], sub)
			pre.storeScalar(t.Sort, addr, sub[t])
		}
	}
	post := pre.Clone()
	sig := rc.fn.Signature
	// final pointees and slice contents
	for i, in := range rc.o.ex.inputs {
		switch u := in.Type.Underlying().(type) {
		case *types.Pointer:
			if dv, ok := oc.Dumps[fmt.Sprintf("post_ptr_%d", i)]; ok {
				val := rc.fromDump(u.Elem(), dv, post)
				post.StoreVal(u.Elem(), args[i].(*Term), val)
			}
		case *types.Slice:
			if dv, ok := oc.Dumps[fmt.Sprintf("post_cap_%d", i)]; ok && dv != nil {
				m := dv.(map[string]interface{})
				elems := m["elems"].([]interface{})
				s := args[i].(*SliceV)
				for k, ev := range elems {
					post.StoreVal(u.Elem(), s.ElemAddr(BVc(int64(k), 64)), rc.fromDump(u.Elem(), ev, post))
				}
			}
		}
	}
	var results []Value
	for k := 0; k < sig.Results().Len(); k++ {
		results = append(results, rc.fromDump(sig.Results().At(k).Type(), oc.Dumps[fmt.Sprintf("res_%d", k)], post))
	}
	ex := rc.o.ex
	env0 := &SpecEnv{ex: ex, vars: paramBindings(sig, args, nil), st: pre, pkg: rc.pkg, mode: "prove"}
	ex.evalLets(ct, env0)
	env := &SpecEnv{ex: ex, vars: map[string]TV{}, st: post, old: pre, pkg: rc.pkg, mode: "prove", freshBase: 0}
	for k, v := range env0.vars {
		env.vars[k] = v
	}
	bindResults(env.vars, sig, results)
	g, err := env.EvalBool(cl.Expr)
	if err != nil {
		return false, "clause evaluation: " + err.Error()
	}
	g = foldConcrete(g)
	if g.IsTrue() {
		return false, "the clause holds on the real execution of the model input (model did not replay: abstraction artefact)"
	}
	if g.IsFalse() {
		return true, "the clause is false on the real execution of this input"
	}
	// residual symbolic parts: ask the solver whether the clause can be true
	s := NewScript()
	script := s.Render("", "", nil, []string{s.Ref(g)}, "(check-sat)\n")
	st, _, _ := runSolver(solverConfigs(10, 0)[0], script, 15*time.Second)
	if st == "unsat" {
		return true, "the clause is false on the real execution of this input"
	}
	return false, "clause not decided on the observed outputs (" + st + ")"
}

func substValue(v Value, sub map[*Term]*Term) Value {
	switch x := v.(type) {
	case *Term:
		return Subst(x, sub)
	case *SliceV:
		return &SliceV{Subst(x.Base, sub), Subst(x.Off, sub), Subst(x.Len, sub), Subst(x.Cap, sub)}
	case *IfaceV:
		return &IfaceV{Subst(x.Tag, sub), Subst(x.Data, sub)}
	case *TupleV:
		r := &TupleV{}
		for _, e := range x.Elems {
			r.Elems = append(r.Elems, substValue(e, sub))
		}
		return r
	}
	return v
}

// fromDump converts a dumped Go value into a concrete Value, allocating regions in st.
func (rc *replayCtx) fromDump(t types.Type, d interface{}, st *State) Value {
	switch kindOf(t) {
	case KScalar:
		srt := scalarSort(t)
		switch {
		case srt == SBool:
			return BoolConst(d.(bool))
		case isString(t):
			m := d.(map[string]interface{})
			return rc.e.strConst(m["str"].(string))
		case srt.IsBV():
			n, _ := new(big.Int).SetString(d.(string), 10)
			return BVConst(n, srt.Width())
		case srt == SAddr:
			if d == nil {
				return NilAddr
			}
			pt := t.Underlying().(*types.Pointer)
			a := st.FreshRegion()
			st.StoreVal(pt.Elem(), a, rc.fromDump(pt.Elem(), d.(map[string]interface{})["ptr"], st))
			return a
		}
	case KSlice:
		if d == nil {
			return NilSlice
		}
		m := d.(map[string]interface{})
		elems := m["elems"].([]interface{})
		et := t.Underlying().(*types.Slice).Elem()
		base := st.FreshRegion()
		s := &SliceV{Base: base, Off: BVc(0, 64), Len: BVc(int64(len(elems)), 64), Cap: BVc(int64(m["cap"].(float64)), 64)}
		for k, ev := range elems {
			st.StoreVal(et, s.ElemAddr(BVc(int64(k), 64)), rc.fromDump(et, ev, st))
		}
		return s
	case KStruct:
		sty := t.Underlying().(*types.Struct)
		arr := d.([]interface{})
		tv := &TupleV{}
		for i := 0; i < sty.NumFields(); i++ {
			tv.Elems = append(tv.Elems, rc.fromDump(sty.Field(i).Type(), arr[i], st))
		}
		return tv
	case KArray:
		ar := t.Underlying().(*types.Array)
		arr := d.([]interface{})
		tv := &TupleV{}
		for i := int64(0); i < ar.Len(); i++ {
			tv.Elems = append(tv.Elems, rc.fromDump(ar.Elem(), arr[i], st))
		}
		return tv
	case KIface:
		if d == nil {
			return NilIface
		}
		m := d.(map[string]interface{})
		if _, isErr := m["err"]; isErr {
			return &IfaceV{Tag: rc.e.errTag(), Data: st.FreshRegion()}
		}
		panic("interface dump not supported")
	}
	panic("fromDump: unsupported " + t.String())
}

func cmdReplay(args []string) {
	if len(args) < 1 {
		fmt.Println("usage: gov replay <file>")
		os.Exit(2)
	}
	data, err := os.ReadFile(args[0])
	if err != nil {
		fmt.Println(err)
		os.Exit(2)
	}
	var rec map[string]interface{}
	if json.Unmarshal(data, &rec) != nil {
		fmt.Println(string(data))
		os.Exit(2)
	}
	prop, _ := rec["property"].(string)
	fmt.Printf("replay file for property %s, obligation %v\n", prop, rec["obligation"])
	fmt.Println(string(data))
	fmt.Println("re-running the check for this property on the current tree:")
	cmd := exec.Command(os.Args[0], "check", "-p", prop)
	cmd.Stdout = os.Stdout
	cmd.Stderr = os.Stderr
	if err := cmd.Run(); err != nil {
		os.Exit(1)
	}
}
