package main

import (
	"fmt"
	"os"
)

func replayObligation(e *Engine, d *Discharged) (bool, interface{}) {
	return false, map[string]interface{}{"status": "replay not attempted"}
}

func cmdReplay(args []string) {
	if len(args) < 1 {
		fmt.Println("usage: gov replay <file>")
		os.Exit(2)
	}
	data, err := os.ReadFile(args[0])
	if err != nil {
		fmt.Println(err)
		os.Exit(2)
	}
	fmt.Println(string(data))
}
