package main

import (
	"fmt"
	"go/types"
	"os"
	"path/filepath"
	"sort"
	"strings"
	"time"

	"golang.org/x/tools/go/packages"
	"golang.org/x/tools/go/ssa"
	"golang.org/x/tools/go/ssa/ssautil"
)

const modPath = "github.com/brocaar/lorawan"

type Engine struct {
	repo         string
	prog         *ssa.Program
	pkgs         []*packages.Package
	ssaPkgs      map[string]*ssa.Package
	cf           *ContractFile
	byFn         map[string]*Contract // ssa function String() -> contract
	ifaceCt      map[string]*Contract // "(pkg.Iface).Method" -> contract
	tags         *TypeTags
	strIDs       map[string]int64
	strByID      map[int64]string
	globals      map[*ssa.Global]int64
	gByObj       map[types.Object]*ssa.Global
	allFuncs     map[string]*ssa.Function
	mapOrderSeed int
	loadTime     time.Duration
	namedTypes   []types.Type
	pruneSolver  *PruneSolver
	fnIDs        map[*ssa.Function]int64
	fnByID       map[int64]*ssa.Function
	inits        map[string]*pkgInit
	shortIdx     map[string]*ssa.Function
	thorough     bool
}

func LoadEngine(repo string, patterns []string) (*Engine, error) {
	t0 := time.Now()
	cfg := &packages.Config{
		Mode:       packages.LoadAllSyntax,
		Dir:        repo,
		BuildFlags: []string{"-tags=verif"},
		Env:        append(os.Environ(), "GOFLAGS=-mod=mod", "GOPROXY=off", "GOSUMDB=off", "GOTOOLCHAIN=local"),
	}
	pkgs, err := packages.Load(cfg, patterns...)
	if err != nil {
		return nil, err
	}
	var errs []string
	packages.Visit(pkgs, nil, func(p *packages.Package) {
		for _, e := range p.Errors {
			errs = append(errs, e.Error())
		}
	})
	if len(errs) > 0 {
		return nil, fmt.Errorf("load errors:\n%s", strings.Join(errs, "\n"))
	}
	prog, spkgs := ssautil.AllPackages(pkgs, ssa.InstantiateGenerics|ssa.GlobalDebug)
	prog.Build()
	e := &Engine{repo: repo, prog: prog, pkgs: pkgs, ssaPkgs: map[string]*ssa.Package{}, tags: NewTypeTags(),
		strIDs: map[string]int64{}, strByID: map[int64]string{}, globals: map[*ssa.Global]int64{}, gByObj: map[types.Object]*ssa.Global{},
		byFn: map[string]*Contract{}, ifaceCt: map[string]*Contract{}, allFuncs: map[string]*ssa.Function{},
		fnIDs: map[*ssa.Function]int64{}, fnByID: map[int64]*ssa.Function{}, inits: map[string]*pkgInit{}}
	_ = spkgs
	for _, p := range prog.AllPackages() {
		e.ssaPkgs[p.Pkg.Path()] = p
	}
	for fn := range ssautil.AllFunctions(prog) {
		e.allFuncs[fn.String()] = fn
	}
	// stable global ids: sorted by name
	var gl []*ssa.Global
	for _, p := range prog.AllPackages() {
		for _, m := range p.Members {
			if g, ok := m.(*ssa.Global); ok {
				gl = append(gl, g)
			}
		}
	}
	sort.Slice(gl, func(i, j int) bool { return gl[i].String() < gl[j].String() })
	for i, g := range gl {
		e.globals[g] = -1000000 - int64(i)
		if g.Object() != nil {
			e.gByObj[g.Object()] = g
		}
	}
	// named types of the module (closed world for interface dispatch)
	for _, p := range prog.AllPackages() {
		if !strings.HasPrefix(p.Pkg.Path(), modPath) {
			continue
		}
		for _, m := range p.Members {
			if t, ok := m.(*ssa.Type); ok {
				e.namedTypes = append(e.namedTypes, t.Type())
			}
		}
	}
	sort.Slice(e.namedTypes, func(i, j int) bool { return e.namedTypes[i].String() < e.namedTypes[j].String() })
	e.loadTime = time.Since(t0)
	return e, nil
}

func (e *Engine) LoadContracts() error {
	e.cf = &ContractFile{Macros: map[string]*SpecMacro{}, Protects: map[string][]string{}, GInvs: map[string]*GInv{}}
	var files []string
	filepath.Walk(e.repo, func(p string, info os.FileInfo, err error) error {
		if err == nil && !info.IsDir() && strings.HasPrefix(filepath.Base(p), "zz_contracts") && strings.HasSuffix(p, "_verif.go") {
			files = append(files, p)
		}
		return nil
	})
	sort.Strings(files)
	for _, f := range files {
		rel, _ := filepath.Rel(e.repo, filepath.Dir(f))
		e.cf.curPkg = modPath
		if rel != "." {
			e.cf.curPkg = modPath + "/" + filepath.ToSlash(rel)
		}
		if _, loaded := e.ssaPkgs[e.cf.curPkg]; !loaded {
			continue
		}
		if err := ParseContractFile(f, e.cf); err != nil {
			return err
		}
	}
	// bind
	for _, c := range e.cf.Contracts {
		dir := filepath.Dir(c.File)
		rel, _ := filepath.Rel(e.repo, dir)
		pkgPath := modPath
		if rel != "." {
			pkgPath = modPath + "/" + filepath.ToSlash(rel)
		}
		name := c.Fn
		if strings.HasPrefix(name, "interface ") {
			// interface Iface.Method
			nm := strings.TrimSpace(strings.TrimPrefix(name, "interface "))
			parts := strings.SplitN(nm, ".", 2)
			e.ifaceCt[fmt.Sprintf("(%s.%s).%s", pkgPath, parts[0], parts[1])] = c
			continue
		}
		full := qualify(name, pkgPath)
		if _, ok := e.allFuncs[full]; !ok {
			return fmt.Errorf("%s: contract for unknown function %q (resolved %q)", c.File, c.Fn, full)
		}
		if _, dup := e.byFn[full]; dup {
			return fmt.Errorf("%s: duplicate contract for %q", c.File, c.Fn)
		}
		e.byFn[full] = c
	}
	return nil
}

// qualify turns "(*T).M", "(T).M", "F", "pkg/path.F" into ssa function names.
func qualify(name, pkgPath string) string {
	if strings.Contains(name, "/") || strings.Contains(strings.TrimLeft(name, "(*"), ".") && !strings.HasPrefix(name, "(") {
		// already qualified like encoding/binary.X or pkg.F
		if strings.Contains(name, "/") {
			return name
		}
	}
	if strings.HasPrefix(name, "(*") {
		return "(*" + pkgPath + "." + name[2:]
	}
	if strings.HasPrefix(name, "(") {
		return "(" + pkgPath + "." + name[1:]
	}
	return pkgPath + "." + name
}

func (e *Engine) contractFor(fn *ssa.Function) *Contract { return e.byFn[fn.String()] }

func (e *Engine) ifaceContract(m *types.Func) *Contract { return e.ifaceCt[m.FullName()] }

func (e *Engine) pkgOfContract(c *Contract) *types.Package {
	dir := filepath.Dir(c.File)
	rel, _ := filepath.Rel(e.repo, dir)
	pkgPath := modPath
	if rel != "." {
		pkgPath = modPath + "/" + filepath.ToSlash(rel)
	}
	if p, ok := e.ssaPkgs[pkgPath]; ok {
		return p.Pkg
	}
	return nil
}

func (e *Engine) globalAddr(g *ssa.Global) *Term {
	id, ok := e.globals[g]
	if !ok {
		panic(abortPath{"unknown global " + g.String()})
	}
	return MkAddr(IntConst(id), PNil)
}

func (e *Engine) globalAddrByObj(o types.Object) *Term {
	if g, ok := e.gByObj[o]; ok {
		return e.globalAddr(g)
	}
	return nil
}

func (e *Engine) strConst(s string) *Term {
	if s == "" {
		// the empty string is the zero value of the type: handle 0, as zeroed memory reads
		e.strByID[0] = ""
		return BVc(0, 64)
	}
	if id, ok := e.strIDs[s]; ok {
		return BVc(id, 64)
	}
	id := int64(len(e.strIDs) + 1)
	e.strIDs[s] = id
	e.strByID[id] = s
	return BVc(id, 64)
}

func (e *Engine) strLen(s *Term) *Term {
	if s.IsConst() {
		if str, ok := e.strByID[s.Val.Int64()]; ok {
			return BVc(int64(len(str)), 64)
		}
	}
	return App("str_len", BV(64), s)
}

func (e *Engine) noteStrFromBytes(st *State, r *Term, s *SliceV) {
	rg := Subst(Rg(s.Base), st.substMap())
	if rg.IsConst() && rg.Val.IsInt64() && isZero(Subst(s.Off, st.substMap())) {
		if x, ok := st.textFloat[rg.Val.Int64()]; ok {
			m := make(map[*Term]*Term, len(st.strFloat)+1)
			for k, v := range st.strFloat {
				m[k] = v
			}
			m[r] = x
			st.strFloat = m
		}
	}
}
func (e *Engine) noteBytesFromStr(st *State, s *SliceV, t *Term) {}

func (e *Engine) errTag() *Term {
	return e.tags.Tag(types.NewPointer(types.NewNamed(types.NewTypeName(0, nil, "errorString", nil), types.NewStruct(nil, nil), nil)))
}

func (e *Engine) typeByTag(tag *Term) types.Type {
	n := int(tag.Val.Int64())
	for s, v := range e.tags.byStr {
		if v == n {
			for _, t := range e.tags.types {
				if types.TypeString(t, nil) == s {
					return t
				}
			}
		}
	}
	return nil
}

// implementors: module types (T and *T) implementing iface.
func (e *Engine) implementors(it types.Type) []types.Type {
	iface, ok := it.Underlying().(*types.Interface)
	if !ok {
		return nil
	}
	var out []types.Type
	for _, t := range e.namedTypes {
		if types.IsInterface(t) {
			continue
		}
		if types.Implements(t, iface) {
			out = append(out, t)
		} else if pt := types.NewPointer(t); types.Implements(pt, iface) {
			out = append(out, pt)
		}
	}
	return out
}

func (e *Engine) implementsTerm(tag *Term, it types.Type) *Term {
	var cs []*Term
	for _, t := range e.implementors(it) {
		cs = append(cs, Eq(tag, e.tags.Tag(t)))
	}
	// types outside the module (e.g. error implementations) are unknown: leave a UF
	cs = append(cs, And(Neq(tag, BVc(0, 32)), App("implements_"+sanitize(it.String()), SBool, tag)))
	return Or(cs...)
}

func sanitize(s string) string {
	r := strings.NewReplacer("/", "_", ".", "_", "*", "p", "(", "", ")", "", " ", "", "{", "", "}", "", ";", "_")
	return r.Replace(s)
}

func (e *Engine) inlinable(fn *ssa.Function) bool {
	if fn.Pkg == nil {
		// synthetic wrappers have no package; allow when the underlying object is in an allowed package
		if fn.Synthetic != "" {
			return true
		}
		return false
	}
	p := fn.Pkg.Pkg.Path()
	if strings.HasPrefix(p, modPath) {
		return true
	}
	switch p {
	case "encoding/binary", "math/bits":
		return true
	}
	return false
}

// feasibility pruning (cheap syntactic only, solver-based pruning optional)
func (e *Engine) feasible(st *State) bool {
	for _, a := range st.assumes[max(0, len(st.assumes)-1):] {
		if Subst(a, st.substMap()).IsFalse() {
			return false
		}
	}
	if e.pruneSolver != nil && st.wantPrune {
		return e.pruneSolver.Feasible(st.assumes)
	}
	return true
}

func (e *Engine) loopInvariantFor(fn *ssa.Function, b *ssa.BasicBlock) *loopInfo {
	ct := e.contractFor(fn)
	if ct == nil || len(ct.Loops) == 0 {
		return nil
	}
	heads := loopHeads(fn)
	for i, h := range heads {
		if h == b {
			if ls, ok := ct.Loops[i]; ok && !ls.Unroll {
				return &loopInfo{spec: ls, idx: i}
			}
		}
	}
	return nil
}

// loopHeads: blocks that are targets of back edges, in block order.
func loopHeads(fn *ssa.Function) []*ssa.BasicBlock {
	var out []*ssa.BasicBlock
	for _, b := range fn.Blocks {
		for _, p := range b.Preds {
			if b.Dominates(p) {
				out = append(out, b)
				break
			}
		}
	}
	return out
}

// feasibleSolver: path feasibility decided by a solver call (used at wide case splits).
func (e *Engine) feasibleSolver(st *State) bool {
	if !e.feasible(st) {
		return false
	}
	if e.pruneSolver == nil {
		e.pruneSolver = &PruneSolver{}
	}
	return e.pruneSolver.Feasible(st.assumes)
}
