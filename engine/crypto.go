package main

// Models of crypto/aes (cipher.Block) and jacobsa/crypto/cmac (hash.Hash) as
// uninterpreted functions over 128-bit values, plus the spec builtins that talk about them.
//
//   aes_enc, aes_dec : BV128 (key) x BV128 (block) -> BV128      axioms: mutually inverse per key
//   cmac             : BV128 (key) x (Array BV64 BV8) x BV64 -> BV128   (RFC 4493, trusted)

import (
	"fmt"
	"go/types"

	"golang.org/x/tools/go/ssa"
)

var seqSort = ArraySort(BV(64), BV(8))

func bytesToBV128(bs []*Term) *Term {
	t := bs[0]
	for _, b := range bs[1:] {
		t = Concat(t, b)
	}
	return t
}

func bv128Byte(x *Term, j int) *Term { return Extract(127-8*j, 120-8*j, x) }

func (e *Engine) aesTag() *Term {
	return e.tags.Tag(types.NewPointer(types.NewNamed(types.NewTypeName(0, nil, "aesCipherModel", nil), types.NewStruct(nil, nil), nil)))
}
func (e *Engine) cmacTag() *Term {
	return e.tags.Tag(types.NewPointer(types.NewNamed(types.NewTypeName(0, nil, "cmacHashModel", nil), types.NewStruct(nil, nil), nil)))
}

func loadBlock(st *State, s *SliceV) *Term {
	var bs []*Term
	for i := int64(0); i < 16; i++ {
		bs = append(bs, st.loadScalar(BV(8), s.ElemAddr(BVc(i, 64))))
	}
	// 16 consecutive byte extracts of one 128-bit term are that term
	if x := sameExtractSource(bs); x != nil {
		return x
	}
	return bytesToBV128(bs)
}

func sameExtractSource(bs []*Term) *Term {
	var src *Term
	for j, b := range bs {
		if b.Op != "extract" || len(b.Args) != 1 || b.Args[0].Sort != BV(128) {
			return nil
		}
		var hi, lo int
		fmt.Sscanf(b.Name, "(_ extract %d %d)", &hi, &lo)
		if hi != 127-8*j || lo != 120-8*j {
			return nil
		}
		if src == nil {
			src = b.Args[0]
		} else if src != b.Args[0] {
			return nil
		}
	}
	return src
}

func init() {
	intrinsics["crypto/aes.NewCipher"] = func(ex *Exec, fr *Frame, in ssa.Instruction, fn *ssa.Function, args []Value, st *State, cont callCont) {
		key := args[0].(*SliceV)
		n := Subst(key.Len, st.substMap())
		okLen := Or(Eq(n, BVc(16, 64)), Eq(n, BVc(24, 64)), Eq(n, BVc(32, 64)))
		if !Eq(n, BVc(16, 64)).IsTrue() {
			// only 128-bit keys are modelled
			st1 := st.Clone()
			st1.AssumeCond(Not(Eq(n, BVc(16, 64))))
			if ex.eng.feasible(st1) {
				fr1 := fr.fork()
				ex.guard(func() {
					e := st1.SymValue(errorType, "aeserr", *st1.nextRg).(*IfaceV)
					st1.Assume(Eq(Eq(e.Tag, BVc(0, 32)), okLen))
					blk := st1.SymValue(fn.Signature.Results().At(0).Type(), "aesblk", *st1.nextRg)
					cont(st1, fr1, &TupleV{Elems: []Value{blk, e}})
				})
			}
			st.AssumeCond(Eq(n, BVc(16, 64)))
			if !ex.eng.feasible(st) {
				return
			}
		}
		obj := st.FreshRegion()
		st.storeScalar(BV(128), FldAddr(obj, 0), loadBlock(st, key))
		cont(st, fr, &TupleV{Elems: []Value{&IfaceV{Tag: ex.eng.aesTag(), Data: obj}, NilIface}})
	}
	blockOp := func(uf string) invokeIntrinsicFn {
		return func(ex *Exec, fr *Frame, in ssa.Instruction, iv *IfaceV, args []Value, st *State, cont callCont) {
			ex.requireTag(st, in, iv, ex.eng.aesTag())
			dst, src := args[0].(*SliceV), args[1].(*SliceV)
			if in != nil {
				ex.safe(st, in, "aesblock", And(BVCmp("bvuge", src.Len, BVc(16, 64)), BVCmp("bvuge", dst.Len, BVc(16, 64))))
			}
			key := st.loadScalar(BV(128), FldAddr(iv.Data, 0))
			blk := loadBlock(st, src)
			out := App(uf, BV(128), key, blk)
			// aes_enc(k, aes_dec(k, x)) = x and vice versa: applied syntactically as well (the axiom pair is
			// in the scripts anyway), so that bytes recovered by decryption are the original terms
			inv := "aes_dec"
			if uf == "aes_dec" {
				inv = "aes_enc"
			}
			if blk.Op == inv && len(blk.Args) == 2 && blk.Args[0] == key {
				out = blk.Args[1]
			}
			if in != nil {
				ex.checkFrameRange(st, in, dst, BVc(16, 64))
			}
			for i := 0; i < 16; i++ {
				st.storeScalar(BV(8), dst.ElemAddr(BVc(int64(i), 64)), bv128Byte(out, i))
			}
			cont(st, fr, nil)
		}
	}
	invokeIntrinsics["(crypto/cipher.Block).Encrypt"] = blockOp("aes_enc")
	invokeIntrinsics["(crypto/cipher.Block).Decrypt"] = blockOp("aes_dec")
	invokeIntrinsics["(crypto/cipher.Block).BlockSize"] = func(ex *Exec, fr *Frame, in ssa.Instruction, iv *IfaceV, args []Value, st *State, cont callCont) {
		ex.requireTag(st, in, iv, ex.eng.aesTag())
		cont(st, fr, BVc(16, 64))
	}

	// ---- CMAC: the message fed to the hash is a symbolic sequence of segments (literal bytes,
	// or "content of slice X in memory M"); cmac(key, canonical term of the segments)
	intrinsics["github.com/jacobsa/crypto/cmac.New"] = func(ex *Exec, fr *Frame, in ssa.Instruction, fn *ssa.Function, args []Value, st *State, cont callCont) {
		key := args[0].(*SliceV)
		n := Subst(key.Len, st.substMap())
		if !Eq(n, BVc(16, 64)).IsTrue() {
			panic(abortPath{"cmac.New with a key whose length is not the constant 16"})
		}
		obj := st.FreshRegion()
		st.storeScalar(BV(128), FldAddr(obj, 0), loadBlock(st, key))
		st.setHashSeq(*st.nextRg, nil)
		cont(st, fr, &TupleV{Elems: []Value{&IfaceV{Tag: ex.eng.cmacTag(), Data: obj}, NilIface}})
	}
	invokeIntrinsics["(io.Writer).Write"] = func(ex *Exec, fr *Frame, in ssa.Instruction, iv *IfaceV, args []Value, st *State, cont callCont) {
		ex.requireTag(st, in, iv, ex.eng.cmacTag())
		p := args[0].(*SliceV)
		id := hashID(iv)
		st.setHashSeq(id, append(append([]Seg{}, st.hashSeq[id]...), st.segsOf(p)...))
		cont(st, fr, &TupleV{Elems: []Value{p.Len, NilIface}})
	}
	invokeIntrinsics["(hash.Hash).Sum"] = func(ex *Exec, fr *Frame, in ssa.Instruction, iv *IfaceV, args []Value, st *State, cont callCont) {
		ex.requireTag(st, in, iv, ex.eng.cmacTag())
		b := args[0].(*SliceV)
		if !isZero(Subst(b.Len, st.substMap())) {
			panic(abortPath{"hash.Sum with a non-empty prefix is not modelled"})
		}
		key := st.loadScalar(BV(128), FldAddr(iv.Data, 0))
		out := App("cmac", BV(128), key, canonSeq(st.hashSeq[hashID(iv)]))
		base := st.FreshRegion()
		res := &SliceV{Base: base, Off: BVc(0, 64), Len: BVc(16, 64), Cap: BVc(16, 64)}
		for i := 0; i < 16; i++ {
			st.storeScalar(BV(8), res.ElemAddr(BVc(int64(i), 64)), bv128Byte(out, i))
		}
		cont(st, fr, res)
	}
}

func hashID(iv *IfaceV) int64 {
	r := Rg(iv.Data)
	if !r.IsConst() {
		panic(abortPath{"hash object with symbolic address"})
	}
	return r.Val.Int64()
}

// Seg: one segment of a symbolic byte sequence.
type Seg struct {
	Lit                 *Term // a single byte, or
	Arr, Base, Off, Len *Term // Len bytes of array Arr starting at elem(Base, Off), or
	Zero                *Term // Zero zero bytes (fresh make)
}

const SSeq Sort = "ByteSeq"

func canonSeq(segs []Seg) *Term {
	acc := mk("seq_empty", SSeq)
	for _, sg := range segs {
		if sg.Lit != nil {
			acc = App("seq_snoc", SSeq, acc, sg.Lit)
		} else if sg.Zero != nil {
			acc = App("seq_zeros", SSeq, acc, sg.Zero)
		} else {
			acc = App("seq_app", SSeq, acc, sg.Arr, sg.Base, sg.Off, sg.Len)
		}
	}
	return acc
}

func segLen(sg Seg) *Term {
	switch {
	case sg.Lit != nil:
		return BVc(1, 64)
	case sg.Zero != nil:
		return sg.Zero
	}
	return sg.Len
}

func (st *State) setRegionLen(id int64, n *Term) {
	m := make(map[int64]*Term, len(st.regionLen)+1)
	for k, v := range st.regionLen {
		m[k] = v
	}
	if n == nil {
		delete(m, id)
	} else {
		m[id] = n
	}
	st.regionLen = m
}

// trackedWhole: p is exactly the tracked content of a locally allocated byte region
func (st *State) trackedWhole(p *SliceV) (int64, []Seg, bool) {
	rg := Subst(Rg(p.Base), st.substMap())
	if !rg.IsConst() || !rg.Val.IsInt64() {
		return 0, nil, false
	}
	id := rg.Val.Int64()
	segs, ok := st.regionSeq[id]
	if !ok || !isZero(Subst(p.Off, st.substMap())) || Pa(p.Base) != PNil {
		return 0, nil, false
	}
	if n, ok := st.regionLen[id]; ok && st.sameLen(n, p.Len) {
		return id, segs, true
	}
	return 0, nil, false
}

// trackedSub: p is a sub-slice of a tracked region whose bounds fall on segment boundaries
func (st *State) trackedSub(p *SliceV) ([]Seg, bool) {
	rg := Subst(Rg(p.Base), st.substMap())
	if !rg.IsConst() || !rg.Val.IsInt64() || Pa(p.Base) != PNil {
		return nil, false
	}
	segs, ok := st.regionSeq[rg.Val.Int64()]
	if !ok {
		return nil, false
	}
	off := st.resolveLen(p.Off)
	end := st.resolveLen(BVBin("bvadd", p.Off, p.Len))
	for _, semantic := range []bool{false, true} {
		eq := func(a, b *Term) bool {
			if linEqual(a, b) {
				return true
			}
			return semantic && st.impliedEq(a, b)
		}
		pos := BVc(0, 64)
		start := -1
		if eq(pos, off) {
			start = 0
		}
		for i, sg := range segs {
			if start >= 0 && eq(st.resolveLen(pos), end) {
				return append([]Seg{}, segs[start:i]...), true
			}
			pos = BVBin("bvadd", pos, segLen(sg))
			if start < 0 && eq(st.resolveLen(pos), off) {
				start = i + 1
			}
		}
		if start >= 0 && eq(st.resolveLen(pos), end) {
			return append([]Seg{}, segs[start:]...), true
		}
		if len(segs) > 24 {
			break
		}
	}
	if traceOn {
		fmt.Printf("TRACKSUB miss: off=%s end=%s segs=%d\n", off.SMT(), end.SMT(), len(segs))
		pos := BVc(0, 64)
		for _, sg := range segs {
			pos = BVBin("bvadd", pos, segLen(sg))
			fmt.Printf("   boundary %s\n", st.resolveLen(pos).SMT())
		}
	}
	return nil, false
}

var boundaryPrune = &PruneSolver{}

// impliedEq: the path condition implies a == b (decided by the solver; used to locate slice
// bounds on segment boundaries when the two are written differently, e.g. through the FOptsLen nibble)
func (st *State) impliedEq(a, b *Term) bool {
	if a.Sort != b.Sort {
		return false
	}
	// same symbolic part, different constants: certainly different
	ca, ma := linParts(a)
	cb, mb := linParts(b)
	if ca != cb && len(ma) == len(mb) {
		same := true
		for k, v := range ma {
			if mb[k] != v {
				same = false
			}
		}
		if same {
			return false
		}
	}
	as := append(append([]*Term{}, st.assumes...), Not(Eq(a, b)))
	return !boundaryPrune.Feasible(as)
}

// resolveLen: substitute known values and the expressions behind make() length names
func (st *State) resolveLen(t *Term) *Term {
	t = Subst(t, st.substMap())
	if len(st.lenAlias) > 0 {
		t = Subst(t, st.lenAlias)
		t = Subst(t, st.substMap())
	}
	return t
}

// linEqual: equality of two 64-bit terms as sums (constants folded, summands as a multiset)
func linEqual(a, b *Term) bool {
	if a == b {
		return true
	}
	ca, ma := linParts(a)
	cb, mb := linParts(b)
	if ca != cb || len(ma) != len(mb) {
		return false
	}
	for k, v := range ma {
		if mb[k] != v {
			return false
		}
	}
	return true
}

func linParts(t *Term) (uint64, map[int]int) {
	c := uint64(0)
	m := map[int]int{}
	var rec func(t *Term, sign int)
	rec = func(t *Term, sign int) {
		switch {
		case t.IsConst() && t.Sort == BV(64):
			if sign > 0 {
				c += t.Val.Uint64()
			} else {
				c -= t.Val.Uint64()
			}
		case t.Op == "bvadd":
			for _, a := range t.Args {
				rec(a, sign)
			}
		case t.Op == "bvsub" && len(t.Args) == 2:
			rec(t.Args[0], sign)
			rec(t.Args[1], -sign)
		default:
			m[t.id] += sign
			if m[t.id] == 0 {
				delete(m, t.id)
			}
		}
	}
	rec(t, 1)
	return c, m
}

// sameLen: two length terms are known to be equal (identity after substitution, or through the
// names introduced for make() lengths)
func (st *State) sameLen(a, b *Term) bool {
	a, b = Subst(a, st.substMap()), Subst(b, st.substMap())
	if a == b {
		return true
	}
	if linEqual(st.resolveLen(a), st.resolveLen(b)) {
		return true
	}
	if x, ok := st.lenAlias[a]; ok && Subst(x, st.substMap()) == b {
		return true
	}
	if x, ok := st.lenAlias[b]; ok && Subst(x, st.substMap()) == a {
		return true
	}
	if x, ok := st.lenAlias[a]; ok {
		if y, ok2 := st.lenAlias[b]; ok2 && Subst(x, st.substMap()) == Subst(y, st.substMap()) {
			return true
		}
	}
	return false
}

// baseArrayFor: the array that determines the content of region rg in arr (stores and bulk updates
// of provably different regions peeled off)
func baseArrayFor(arr, rg *Term) *Term {
	for {
		if arr.Op == "var" {
			arrayFramesMu.Lock()
			fi, ok := arrayFrames[arr.id]
			arrayFramesMu.Unlock()
			if ok && rgCompare(rg, fi.rg) == 1 {
				arr = fi.old
				continue
			}
			return arr
		}
		if arr.Op == "store" {
			a := arr.Args[1]
			if a.Op == "mkaddr" && rgCompare(a.Args[0], rg) == 1 {
				arr = arr.Args[0]
				continue
			}
		}
		return arr
	}
}

func (st *State) setHashSeq(id int64, segs []Seg) {
	n := make(map[int64][]Seg, len(st.hashSeq)+1)
	for k, v := range st.hashSeq {
		n[k] = v
	}
	n[id] = segs
	st.hashSeq = n
}

func (st *State) setRegionSeq(id int64, segs []Seg) {
	n := make(map[int64][]Seg, len(st.regionSeq)+1)
	for k, v := range st.regionSeq {
		n[k] = v
	}
	if segs == nil {
		delete(n, id)
	} else {
		n[id] = segs
	}
	st.regionSeq = n
}

// segsOf: the content of a byte slice as segments.
func (st *State) segsOf(p *SliceV) []Seg {
	n := Subst(p.Len, st.substMap())
	if n.IsConst() && n.Val.Int64() <= 64 {
		var out []Seg
		for i := int64(0); i < n.Val.Int64(); i++ {
			out = append(out, Seg{Lit: st.loadScalar(BV(8), p.ElemAddr(BVc(i, 64)))})
		}
		return out
	}
	if _, segs, ok := st.trackedWhole(p); ok {
		return segs
	}
	if segs, ok := st.trackedSub(p); ok {
		return segs
	}
	if rg := Subst(Rg(p.Base), st.substMap()); rg.IsConst() {
		if segs, ok := st.regionSeq[rg.Val.Int64()]; ok && isZero(Subst(p.Off, st.substMap())) {
			// the slice must cover the whole tracked content
			total := BVc(0, 64)
			for _, sg := range segs {
				total = BVBin("bvadd", total, segLen(sg))
			}
			if Subst(Eq(total, p.Len), st.substMap()).IsTrue() {
				return segs
			}
		}
	}
	arr := st.mem.arr(BV(8), st.memGen)
	if snap, ok := resultSnapshot[p]; ok && st.unchangedSince(snap, p) {
		arr = snap
	}
	return []Seg{{Arr: arr, Base: p.Base, Off: p.Off, Len: p.Len}}
}

// resultSnapshot: byte memory at the moment a call returned the given slice value.
var resultSnapshot = map[*SliceV]*Term{}

// unchangedSince: the current byte memory is snap plus stores to regions provably different from p's.
func (st *State) unchangedSince(snap *Term, p *SliceV) bool {
	cur := st.mem.arr(BV(8), st.memGen)
	for cur != snap {
		if cur.Op != "store" {
			return false
		}
		a := cur.Args[1]
		if a.Op != "mkaddr" || rgCompare(a.Args[0], Rg(p.Base)) != 1 {
			return false
		}
		cur = cur.Args[0]
	}
	return true
}

func (ex *Exec) requireTag(st *State, in ssa.Instruction, iv *IfaceV, tag *Term) {
	t := Subst(iv.Tag, st.substMap())
	if t == tag {
		return
	}
	panic(abortPath{"call on an interface value whose dynamic type is not the modelled crypto object"})
}

// seqAppendSlice: new sequence = old ++ p, canonical (zero beyond the end).
func seqAppendSlice(st *State, oldMsg, oldLen *Term, p *SliceV) *Term {
	n := Subst(p.Len, st.substMap())
	if n.IsConst() && n.Val.Int64() <= 64 {
		m := oldMsg
		for i := int64(0); i < n.Val.Int64(); i++ {
			m = Store(m, BVBin("bvadd", oldLen, BVc(i, 64)), st.loadScalar(BV(8), p.ElemAddr(BVc(i, 64))))
		}
		return m
	}
	nm := FreshVar("seq", seqSort)
	i := BoundVar("i$seq", BV(64))
	m8 := st.mem.arr(BV(8), st.memGen)
	inOld := BVCmp("bvult", i, oldLen)
	inNew := BVCmp("bvult", BVBin("bvsub", i, oldLen), p.Len)
	val := Ite(inOld, mk("select", BV(8), oldMsg, i), Ite(inNew, mk("select", BV(8), m8, p.ElemAddr(BVBin("bvsub", i, oldLen))), BVc(0, 8)))
	st.Assume(Forall([]*Term{i}, Eq(mk("select", BV(8), nm, i), val)))
	return nm
}

// ---------- spec builtins ----------

type SeqV struct {
	Segs []Seg
}

func keyTV128(v TV) *Term {
	tv, ok := v.V.(*TupleV)
	if !ok || len(tv.Elems) != 16 {
		sfail("128-bit key/block expected")
	}
	var bs []*Term
	for _, e := range tv.Elems {
		bs = append(bs, e.(*Term))
	}
	return bytesToBV128(bs)
}

func bv128ToTV(x *Term) TV {
	tv := &TupleV{}
	for j := 0; j < 16; j++ {
		tv.Elems = append(tv.Elems, bv128Byte(x, j))
	}
	return TV{V: tv, T: types.NewArray(tU8, 16)}
}

func byteArg(e *SpecEnv, v TV) *Term {
	if v.U != nil {
		return BVConst(v.U, 8)
	}
	t, ok := v.V.(*Term)
	if !ok || t.Sort != BV(8) {
		sfail("byte expected")
	}
	return t
}

func init() {
	// aes_enc(key [16]byte, b0, ..., b15) [16]byte
	for _, nm := range []string{"aes_enc", "aes_dec"} {
		uf := nm
		specBuiltins[nm] = func(e *SpecEnv, args []TV) TV {
			if len(args) != 17 {
				sfail("%s(key, 16 bytes)", uf)
			}
			var bs []*Term
			for _, a := range args[1:] {
				bs = append(bs, byteArg(e, a))
			}
			return bv128ToTV(App(uf, BV(128), keyTV128(args[0]), bytesToBV128(bs)))
		}
	}
	// seq(b0, b1, ...): a byte sequence of constant length
	specBuiltins["seq"] = func(e *SpecEnv, args []TV) TV {
		var segs []Seg
		for _, a := range args {
			segs = append(segs, Seg{Lit: byteArg(e, a)})
		}
		return TV{V: &SeqV{Segs: segs}}
	}
	// bytes(s): the content of a byte slice (for a call result: as returned by the call)
	specBuiltins["bytes"] = func(e *SpecEnv, args []TV) TV {
		s, ok := args[0].V.(*SliceV)
		if !ok {
			if tv, isArr := args[0].V.(*TupleV); isArr {
				var segs []Seg
				for _, el := range tv.Elems {
					segs = append(segs, Seg{Lit: el.(*Term)})
				}
				return TV{V: &SeqV{Segs: segs}}
			}
			sfail("bytes(slice)")
		}
		if snap, isRes := resultSnapshot[s]; isRes {
			n := Subst(s.Len, e.st.substMap())
			if !(n.IsConst() && n.Val.Int64() <= 64) {
				return TV{V: &SeqV{Segs: []Seg{{Arr: snap, Base: s.Base, Off: s.Off, Len: s.Len}}}}
			}
		}
		return TV{V: &SeqV{Segs: e.st.segsOf(s)}}
	}
	specBuiltins["cat"] = func(e *SpecEnv, args []TV) TV {
		a, ok1 := args[0].V.(*SeqV)
		b, ok2 := args[1].V.(*SeqV)
		if !ok1 || !ok2 {
			sfail("cat(seq, seq)")
		}
		return TV{V: &SeqV{Segs: append(append([]Seg{}, a.Segs...), b.Segs...)}}
	}
	// cmac(key [16]byte, seq) [16]byte
	specBuiltins["cmac"] = func(e *SpecEnv, args []TV) TV {
		s, ok := args[1].V.(*SeqV)
		if !ok {
			sfail("cmac(key, seq)")
		}
		return bv128ToTV(App("cmac", BV(128), keyTV128(args[0]), canonSeq(s.Segs)))
	}
}
