package main

import (
	"encoding/hex"
	"testing"
)

func TestCMACVectors(t *testing.T) {
	key, _ := hex.DecodeString("2b7e151628aed2a6abf7158809cf4f3c")
	m16, _ := hex.DecodeString("6bc1bee22e409f96e93d7e117393172a")
	m40, _ := hex.DecodeString("6bc1bee22e409f96e93d7e117393172aae2d8a571e03ac9c9eb76fac45af8e5130c81c46a35ce411")
	for _, c := range []struct {
		m    []byte
		want string
	}{{[]byte{}, "bb1d6929e95937287fa37d129b756746"}, {m16, "070a16b46b4d4144f79bdd9dd04a287c"}, {m40, "dfa66747de9ae63030ca32611497c827"}} {
		if got := hex.EncodeToString(cmacAES128(key, c.m)); got != c.want {
			t.Errorf("cmac(%d bytes) = %s, want %s", len(c.m), got, c.want)
		}
	}
}
