package main

import (
	"fmt"
	"go/types"
	"os"
	"strings"
	"time"

	"golang.org/x/tools/go/ssa"
)

type FuncReport struct {
	Fn           string
	Obls         []*Obligation
	Trivial      int
	Paths        int
	Steps        int
	Failed       []string
	Inlined      []string
	UsedCtr      []string
	Intrinsic    []string
	HasCtr       bool
	TrivialNames map[string]string
	ClauseProps  map[string][]string
	FnProps      []string
	isRoot       bool
}

func newState() *State {
	n := int64(0)
	return &State{mem: NewMem(""), memGen: "0", nextRg: &n, mapKeys: map[int64][]*Term{}}
}

// VerifyFunction symbolically executes fn against its contract (or a thin
// safety-only contract when it has none) and returns the obligations.
// VerifyFunction: first explore path by path (small, easy VCs); if that exceeds the
// path budget, redo with state merging at post-dominators.
func (e *Engine) VerifyFunction(fn *ssa.Function) *FuncReport {
	if ct := e.contractFor(fn); ct != nil && ct.Merge {
		return e.verifyFunction(fn, false)
	}
	rep := e.verifyFunction(fn, true)
	if os.Getenv("GOV_DEBUG") != "" {
		fmt.Printf("DEBUG %s first attempt: paths=%d failed=%v\n", rep.Fn, rep.Paths, rep.Failed)
		if os.Getenv("GOV_DEBUG") == "nomerge" {
			return rep
		}
	}
	for _, f := range rep.Failed {
		if strings.Contains(f, "path limit") || strings.Contains(f, "fork limit") || strings.Contains(f, "time limit") || strings.Contains(f, "step limit") {
			return e.verifyFunction(fn, false)
		}
	}
	return rep
}

func (e *Engine) verifyFunction(fn *ssa.Function, noMerge bool) *FuncReport {
	ct := e.contractFor(fn)
	ex := &Exec{eng: e, root: fn, rootName: shortFn(fn), maxSteps: 3000000, maxPaths: 3000, inlined: map[string]bool{}, usedCtr: map[string]bool{},
		noMerge: noMerge, intrUsed: map[string]bool{}, trivialNames: map[string]string{}, clauseProps: map[string][]string{}, ordinals: map[ssa.Instruction]string{}, maxForks: 1500}
	if noMerge {
		ex.maxPaths = 400
		if strings.HasPrefix(fn.Name(), "lemma") {
			// client lemmas branch over the shapes of the value they build: explore them path by path
			ex.maxPaths = 4000
		}
	}
	ex.allowPanic = ct != nil && ct.AllowPanic
	rep := &FuncReport{Fn: ex.rootName, HasCtr: ct != nil}
	if ct == nil {
		ct = &Contract{Fn: fn.String(), Loops: map[int]*LoopSpec{}, Nullable: map[string]bool{}}
		// thin default: a pointer-receiver method may write its receiver
		if r := fn.Signature.Recv(); r != nil {
			if _, isPtr := r.Type().Underlying().(*types.Pointer); isPtr && len(fn.Params) > 0 {
				ct.Modifies = []string{"*" + fn.Params[0].Name()}
			}
		}
	}
	st := newState()
	if fn.Pkg != nil && strings.HasPrefix(fn.Pkg.Pkg.Path(), modPath) && e.hasGlobalDecls(fn.Pkg.Pkg.Path()) {
		ist, failed := e.entryStateFor(fn.Pkg.Pkg.Path())
		if len(failed) == 0 {
			st = ist
			n := int64(0)
			st.nextRg = &n
		} else {
			for _, f := range failed {
				ex.fail("package init: " + f)
			}
		}
	}
	sig := fn.Signature
	var args []Value
	// a function whose only memory-carrying parameter is one slice: the slice can be taken to
	// start at offset 0 of its region without loss of generality (nothing else can alias it)
	memParams := 0
	for _, p := range fn.Params {
		if typeCarriesMemory(p.Type()) {
			memParams++
		}
	}
	for i, p := range fn.Params {
		v := st.SymValue(p.Type(), p.Name(), 0)
		if sl, isSl := v.(*SliceV); isSl && memParams == 1 {
			st.Assume(Eq(sl.Off, BVc(0, 64)))
			sl.Off = BVc(0, 64)
		}
		args = append(args, v)
		ex.inputs = append(ex.inputs, NamedVal{Name: p.Name(), Type: p.Type(), V: v})
		if t, ok := v.(*Term); ok && t.Sort == SAddr {
			if _, isPtr := p.Type().Underlying().(*types.Pointer); isPtr {
				isRecv := i == 0 && sig.Recv() != nil
				if isRecv || !ct.Nullable[p.Name()] && false {
					st.Assume(Neq(Rg(t), IntConst(0)))
				}
			}
		}
	}
	pkg := e.pkgOfContract(ct)
	if pkg == nil && fn.Pkg != nil {
		pkg = fn.Pkg.Pkg
	}
	// ghost parameters: universally quantified extra inputs
	env0 := &SpecEnv{ex: ex, vars: paramBindings(sig, args, nil), st: st, pkg: pkg, mode: "assume"}
	for _, g := range ct.Ghost {
		t := env0.typeFromString(g.Type)
		if t == nil {
			ex.fail("ghost type " + g.Type)
			continue
		}
		env0.vars[g.Name] = TV{V: st.SymValue(t, "ghost."+g.Name, 0), T: t}
	}
	func() {
		defer func() {
			if r := recover(); r != nil {
				if a, ok := r.(abortPath); ok {
					ex.fail(a.reason)
					return
				}
				panic(r)
			}
		}()
		ex.evalLets(ct, env0)
		for _, r := range ct.Requires {
			g, err := env0.EvalBool(r.Expr)
			if err != nil {
				ex.fail(fmt.Sprintf("requires %q: %v", r.Text, err))
				continue
			}
			st.AssumeCond(g)
		}
	}()
	var ginvs []*GInv
	for _, u := range append(append([]string{}, ct.Uses...), ct.Maintains...) {
		gi := e.cf.GInvs[u]
		if gi == nil {
			ex.fail("unknown global invariant " + u)
			continue
		}
		// functions that only read the global keep the invariant by their frame (every store
		// outside `modifies` is an obligation); only writers re-prove it at exit
		for _, m := range ct.Maintains {
			if m == u {
				ginvs = append(ginvs, gi)
			}
		}
		g, err := env0.EvalBool(gi.Clause.Expr)
		if err != nil {
			ex.fail("ginv " + u + ": " + err.Error())
			continue
		}
		st.Assume(g)
	}
	// behavioural subtyping: a method must also satisfy the contract of every interface method it implements
	var ifaceClauses []Clause
	if recv := sig.Recv(); recv != nil {
		for key, ic := range e.ifaceCt {
			// key: (pkg.Iface).Method
			i := strings.LastIndex(key, ").")
			if i < 0 || key[i+2:] != fn.Name() {
				continue
			}
			it := e.lookupNamed(key[1:i])
			if it == nil {
				continue
			}
			iface, ok := it.Underlying().(*types.Interface)
			if !ok || !types.Implements(recv.Type(), iface) {
				continue
			}
			for _, c := range ic.Ensures {
				c2 := c
				c2.Label = "iface:" + c.Label
				ifaceClauses = append(ifaceClauses, c2)
			}
			if ic.HasMod && len(ic.Modifies) == 0 && len(ct.Modifies) > 0 && !rep.HasCtr {
				// thin default contract: the interface contract is stricter, adopt it
				ct.Modifies = nil
			}
			if ic.HasMod && len(ic.Modifies) == 0 && len(ct.Modifies) > 0 {
				ex.fail("interface contract " + key + " says `modifies nothing` but this implementor declares modifies " + strings.Join(ct.Modifies, ", "))
			}
		}
	}
	entry := st.Clone()
	ex.entry = entry
	ex.rootVars = env0.vars
	// lock discipline: globals declared `protects mutex: g...` may only be read with the mutex held
	// (read or write lock) and written with the write lock held
	if len(e.cf.Protects) > 0 && fn.Pkg != nil && fn.Name() != "init" {
		prot := map[int64]int64{} // region -> region of the protecting mutex
		names := map[int64]string{}
		for mname, gs := range e.cf.Protects {
			m := e.globalByName(fn.Pkg.Pkg.Path(), mname)
			if m == nil {
				continue
			}
			for _, gname := range gs {
				g := e.globalByName(fn.Pkg.Pkg.Path(), gname)
				if g == nil {
					continue
				}
				prot[e.globals[g]] = e.globals[m]
				names[e.globals[g]] = gname
				for d := 0; d <= 2; d++ {
					for _, r := range e.regionsAtDepth(st, g, d) {
						prot[r] = e.globals[m]
						names[r] = gname
					}
				}
			}
		}
		if len(prot) > 0 {
			st.accessHook = func(s2 *State, a *Term, write bool) {
				if specDepth > 0 {
					return
				}
				rg := Subst(Rg(a), s2.substMap())
				// the region may be a choice between several objects (m[uplink] with a symbolic key)
				var leaves []*Term
				var walk func(t *Term)
				walk = func(t *Term) {
					if t.Op == "ite" {
						walk(t.Args[1])
						walk(t.Args[2])
						return
					}
					leaves = append(leaves, t)
				}
				walk(rg)
				var hit int64
				found := false
				for _, l := range leaves {
					if l.IsConst() && l.Val.IsInt64() {
						if _, ok := prot[l.Val.Int64()]; ok {
							hit, found = l.Val.Int64(), true
						}
					}
				}
				if !found {
					return
				}
				held := s2.locks[prot[hit]]
				if write {
					ex.addObl(s2, "lock", "lock:write-held:"+names[hit], BoolConst(held == 2), "write of a lock-protected global")
				} else {
					ex.addObl(s2, "lock", "lock:read-held:"+names[hit], BoolConst(held >= 1), "read of a lock-protected global")
				}
			}
		}
	}
	// frame checking
	var modAddrs []modItem
	func() {
		defer func() {
			if r := recover(); r != nil {
				if se, ok := r.(specErr); ok {
					ex.fail("modifies: " + se.msg)
					return
				}
				panic(r)
			}
		}()
		for _, m := range ct.Modifies {
			modAddrs = append(modAddrs, env0.modItem(m))
		}
	}()
	st.frameCheck = func(ex *Exec, st *State, in ssa.Instruction, a *Term) {
		g := frameGoal(a, modAddrs)
		if g.IsTrue() {
			return
		}
		ex.addObl(st, "frame", ex.instrLabel("frame", in), g, ex.pos(in))
	}
	st.frameCheckRange = func(ex *Exec, st *State, in ssa.Instruction, dst *SliceV, n *Term) {
		// every element dst[0:n) must be allowed: check the two ends plus region (ranges are contiguous)
		rg := Subst(Rg(dst.Base), st.substMap())
		if rg.IsConst() && rg.Val.Sign() > 0 {
			return
		}
		g := frameRangeGoal(dst, n, modAddrs)
		if g.IsTrue() {
			return
		}
		ex.addObl(st, "frame", ex.instrLabel("frame", in), Implies(Neq(n, BVc(0, 64)), g), ex.pos(in))
	}
	retK := func(st2 *State, results []Value) {
		ex.paths++
		for _, v := range st2.locks {
			if v != 0 {
				ex.addObl(st2, "lock", "lock:released-at-return", False, "a package-level mutex is still held when the function returns")
			}
		}
		if len(st2.locks) > 0 {
			ex.trivialNames[ex.rootName+"#lock:released-at-return"] = "lock"
		}
		env := &SpecEnv{ex: ex, vars: map[string]TV{}, st: st2, old: entry, pkg: pkg, mode: "prove", freshBase: 0}
		for k, v := range env0.vars {
			env.vars[k] = v
		}
		bindResults(env.vars, sig, results)
		for _, gi := range ginvs {
			g, err := env.EvalBool(gi.Clause.Expr)
			if err != nil {
				ex.fail("ginv " + gi.Name + ": " + err.Error())
				continue
			}
			ex.addObl(st2, "post", "ginv:"+gi.Name, g, gi.Clause.Text)
		}
		for _, c := range append(append([]Clause{}, ct.Ensures...), ifaceClauses...) {
			if strings.HasPrefix(c.Label, "slow_") && !e.thorough {
				// expensive clause (exact floating point): thorough tier only
				continue
			}
			g, err := env.EvalBool(c.Expr)
			if err != nil {
				ex.fail(fmt.Sprintf("ensures %s %q: %v", c.Label, c.Text, err))
				continue
			}
			ex.addObl(st2, "post", c.Label, g, c.Text)
			if n := len(ex.obls); n > 0 && ex.obls[n-1].Label == c.Label {
				ex.obls[n-1].Props = c.Props
			}
			if len(c.Props) > 0 {
				ex.clauseProps[ex.rootName+"#"+c.Label] = c.Props
			}
		}
	}
	ex.deadline = time.Now().Add(time.Duration(envInt("GOV_FN_SECONDS", 300)) * time.Second)
	func() {
		defer func() {
			if r := recover(); r != nil {
				if a, ok := r.(abortAll); ok {
					ex.fail(a.reason)
					return
				}
				panic(r)
			}
		}()
		ex.guardedRoot(fn, args, st, retK)
	}()
	if false {
		ex.guard(func() {
			fr := &Frame{fn: fn, regs: map[ssa.Value]Value{}, depth: 0, retK: retK}
			for i, p := range fn.Params {
				fr.regs[p] = args[i]
			}
			ex.runBlock(fr, fn.Blocks[0], nil, st, map[*ssa.BasicBlock]int{})
		})
	}
	rep.Obls = ex.obls
	rep.Trivial = ex.trivial
	rep.TrivialNames = ex.trivialNames
	rep.ClauseProps = ex.clauseProps
	if c := e.contractFor(fn); c != nil {
		rep.FnProps = c.Props
	}
	rep.Paths = ex.paths
	rep.Steps = ex.steps
	if traceOn {
		fmt.Printf("PRUNESTATS %s calls=%d pruned=%d seconds=%.1f\n", rep.Fn, ex.pruneCalls, ex.prunePruned, ex.pruneNs/1e9)
	}
	rep.Failed = dedupe(ex.failed)
	rep.Inlined = keys(ex.inlined)
	rep.UsedCtr = keys(ex.usedCtr)
	rep.Intrinsic = keys(ex.intrUsed)
	return rep
}

func (ex *Exec) guardedRoot(fn *ssa.Function, args []Value, st *State, retK func(st *State, results []Value)) {
	ex.guard(func() {
		fr := &Frame{fn: fn, regs: map[ssa.Value]Value{}, depth: 0, retK: retK}
		for i, p := range fn.Params {
			fr.regs[p] = args[i]
		}
		ex.runBlock(fr, fn.Blocks[0], nil, st, map[*ssa.BasicBlock]int{})
	})
}

func dedupe(ss []string) []string {
	seen := map[string]bool{}
	var out []string
	for _, s := range ss {
		if !seen[s] {
			seen[s] = true
			out = append(out, s)
		}
	}
	return out
}

func keys(m map[string]bool) []string {
	var out []string
	for k := range m {
		out = append(out, k)
	}
	sortStrings(out)
	return out
}

// ---------- frames ----------

type modItem struct {
	kind  string // "under" (everything under addr), "range" (slice elements)
	addr  *Term
	slice *SliceV
}

func (e *SpecEnv) modItem(m string) modItem {
	specDepth++
	defer func() { specDepth-- }()
	m = strings.TrimSpace(m)
	if strings.HasSuffix(m, ".*") {
		m = "*" + strings.TrimSuffix(m, ".*")
	}
	n, err := ParseSpecExpr(m)
	if err != nil {
		sfail("modifies %q: %v", m, err)
	}
	switch n.Kind {
	case "ident":
		if a, ok := e.addrs[n.Name]; ok {
			return modItem{kind: "under", addr: a.V.(*Term)}
		}
	case "unary":
		p := e.eval(n.Args[0])
		if iv, isI := p.V.(*IfaceV); isI {
			return modItem{kind: "under", addr: iv.Data}
		}
		return modItem{kind: "under", addr: p.V.(*Term)}
	case "sel":
		a, _ := e.lvalAddr(n)
		return modItem{kind: "under", addr: a}
	case "slice":
		sv := e.evalSlice(n)
		return modItem{kind: "range", slice: sv.V.(*SliceV)}
	}
	// any other expression denoting a map (or pointer): everything under it
	v := e.eval(n)
	if t, ok := v.V.(*Term); ok && t.Sort == SAddr {
		return modItem{kind: "under", addr: t}
	}
	sfail("unsupported modifies form %q", m)
	return modItem{}
}

// isUnderSyntactic: is path of a an extension of path of p (same region)?
func underTerm(a, p *Term) *Term {
	if a.Op != "mkaddr" {
		a = MkAddr(Rg(a), Pa(a))
	}
	if p.Op != "mkaddr" {
		p = MkAddr(Rg(p), Pa(p))
	}
	rgEq := Eq(a.Args[0], p.Args[0])
	if rgEq.IsFalse() {
		return False
	}
	// walk up a's path
	var alts []*Term
	cur := a.Args[1]
	for {
		c := pathCompare(cur, p.Args[1])
		if c == 0 {
			return rgEq
		}
		if c == -1 {
			alts = append(alts, mkEqRaw(cur, p.Args[1]))
		}
		if cur.Op == "fld" || cur.Op == "elem" {
			cur = cur.Args[0]
			continue
		}
		break
	}
	return And(rgEq, Or(alts...))
}

func frameGoal(a *Term, mods []modItem) *Term {
	if a.Op == "mkaddr" && a.Args[0].IsConst() && a.Args[0].Val.Sign() > 0 {
		return True
	}
	alts := []*Term{IntCmp(">", Rg(a), IntConst(0))}
	for _, m := range mods {
		switch m.kind {
		case "under":
			alts = append(alts, underTerm(a, m.addr))
		case "range":
			alts = append(alts, inSliceRangeC(a, m.slice))
		}
	}
	return Or(alts...)
}

// inSliceRangeC: like inSliceRange but simplifying when a is a constructor term.
func inSliceRangeC(a *Term, s *SliceV) *Term {
	// a lies in (or under: composite elements, nested arrays) one of the elements s[0:len)
	if a.Op == "mkaddr" {
		var alts []*Term
		cur := a.Args[1]
		for cur.Op == "fld" || cur.Op == "elem" {
			if cur.Op == "elem" {
				idx := cur.Args[1]
				alts = append(alts, And(Eq(a.Args[0], Rg(s.Base)), mkEqRaw(cur.Args[0], Pa(s.Base)),
					BVCmp("bvult", BVBin("bvsub", idx, s.Off), s.Len)))
			}
			cur = cur.Args[0]
		}
		if cur.Op == "pnil" {
			return Or(alts...)
		}
		return Or(append(alts, inSliceRange(a, s))...)
	}
	return inSliceRange(a, s)
}

func frameRangeGoal(dst *SliceV, n *Term, mods []modItem) *Term {
	alts := []*Term{IntCmp(">", Rg(dst.Base), IntConst(0))}
	for _, m := range mods {
		if m.kind == "range" {
			s := m.slice
			// dst.Off >= s.Off && dst.Off + n <= s.Off + s.Len, same base
			alts = append(alts, And(Eq(dst.Base, s.Base),
				BVCmp("bvule", s.Off, dst.Off),
				BVCmp("bvule", BVBin("bvadd", dst.Off, n), BVBin("bvadd", s.Off, s.Len))))
		}
		if m.kind == "under" {
			alts = append(alts, underTerm(dst.Base, m.addr))
		}
	}
	return Or(alts...)
}

func (e *Engine) hasGlobalDecls(pkgPath string) bool {
	for _, d := range e.cf.Immutables {
		if d.pkgPath == pkgPath {
			return true
		}
	}
	for _, d := range e.cf.Mutables {
		if d.pkgPath == pkgPath {
			return true
		}
	}
	return false
}

// VerifyPackageGlobals: obligations about a package's globals: init establishes every
// global invariant; nothing outside init writes immutable globals.
func (e *Engine) VerifyPackageGlobals(pkgPath string) *FuncReport {
	name := strings.TrimPrefix(strings.TrimPrefix(pkgPath, modPath), "/")
	if name == "" {
		name = "lorawan"
	}
	rep := &FuncReport{Fn: name + ".init", HasCtr: true, TrivialNames: map[string]string{}, ClauseProps: map[string][]string{}}
	if !e.hasGlobalDecls(pkgPath) {
		return nil
	}
	pi := e.runInit(pkgPath)
	for _, f := range pi.failed {
		rep.Failed = append(rep.Failed, "package init: "+f)
	}
	rep.Paths = 1
	for _, v := range e.checkGlobalWrites(pkgPath) {
		rep.Obls = append(rep.Obls, &Obligation{Name: rep.Fn + "#immutable-globals", Func: rep.Fn, Label: "immutable-globals", Kind: "frame", Goal: False, Where: v})
	}
	if len(e.checkGlobalWrites(pkgPath)) == 0 {
		rep.TrivialNames[rep.Fn+"#immutable-globals"] = "frame"
		rep.Trivial++
	}
	if len(pi.failed) > 0 || pi.st == nil {
		return rep
	}
	p := e.ssaPkgs[pkgPath]
	ex := &Exec{eng: e, root: p.Func("init"), rootName: rep.Fn, inlined: map[string]bool{}, usedCtr: map[string]bool{}, intrUsed: map[string]bool{},
		trivialNames: rep.TrivialNames, clauseProps: map[string][]string{}, ordinals: map[ssa.Instruction]string{}}
	var names []string
	for n, gi := range e.cf.GInvs {
		if gi.pkgPath == pkgPath {
			names = append(names, n)
		}
	}
	sortStrings(names)
	for _, n := range names {
		gi := e.cf.GInvs[n]
		env := &SpecEnv{ex: ex, vars: map[string]TV{}, st: pi.st, pkg: p.Pkg, mode: "prove"}
		g, err := env.EvalBool(gi.Clause.Expr)
		if err != nil {
			rep.Failed = append(rep.Failed, "ginv "+n+": "+err.Error())
			continue
		}
		// the init state is closed under "absent keys are absent": use the filtered state's axioms
		e.entryStateFor(pkgPath)
		st := pi.st.Clone()
		st.assumes = append(st.assumes, e.absentAxioms(pi, st, false)...)
		ex.addObl(st, "post", "ginv:"+n, g, gi.Clause.Text)
	}
	rep.Obls = append(rep.Obls, ex.obls...)
	rep.Trivial += ex.trivial
	return rep
}

func absentAxiomsOnly(st *State) []*Term {
	var out []*Term
	for _, a := range st.assumes {
		if a.Op == "forall" {
			out = append(out, a)
		}
	}
	return out
}

func typeCarriesMemory(t types.Type) bool {
	switch u := t.Underlying().(type) {
	case *types.Pointer, *types.Slice, *types.Map, *types.Interface, *types.Signature, *types.Chan:
		return true
	case *types.Struct:
		for i := 0; i < u.NumFields(); i++ {
			if typeCarriesMemory(u.Field(i).Type()) {
				return true
			}
		}
	case *types.Array:
		return typeCarriesMemory(u.Elem())
	}
	return false
}

func (e *Engine) lookupNamed(qualified string) types.Type {
	i := strings.LastIndex(qualified, ".")
	if i < 0 {
		return nil
	}
	p := e.ssaPkgs[qualified[:i]]
	if p == nil {
		return nil
	}
	if tn, ok := p.Pkg.Scope().Lookup(qualified[i+1:]).(*types.TypeName); ok {
		return tn.Type()
	}
	return nil
}
