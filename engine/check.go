package main

import (
	"encoding/json"
	"flag"
	"fmt"
	"os"
	"os/exec"
	"path/filepath"
	"regexp"
	"sort"
	"strconv"
	"strings"
	"time"

	"golang.org/x/tools/go/ssa"
)

const verifDir = "/verif"

type KnownFinding struct {
	Property   string
	Obligation string // exact obligation name
	Instance   string // optional substring that must occur in the failing instance description
	Text       string
	Fixed      bool
	seen       bool
}

func loadKnownFindings(path string) []*KnownFinding {
	data, err := os.ReadFile(path)
	if err != nil {
		return nil
	}
	var out []*KnownFinding
	for _, line := range strings.Split(string(data), "\n") {
		line = strings.TrimSpace(line)
		if line == "" || strings.HasPrefix(line, "#") {
			continue
		}
		if strings.HasPrefix(line, "fixed:") {
			out = append(out, &KnownFinding{Fixed: true, Text: line})
			continue
		}
		if !strings.HasPrefix(line, "finding:") {
			continue
		}
		rest := strings.TrimSpace(strings.TrimPrefix(line, "finding:"))
		desc := ""
		if i := strings.Index(rest, "::"); i >= 0 {
			desc = strings.TrimSpace(rest[i+2:])
			rest = strings.TrimSpace(rest[:i])
		}
		k := &KnownFinding{Text: desc}
		for _, f := range splitKV(rest) {
			switch f[0] {
			case "property":
				k.Property = f[1]
			case "obligation":
				k.Obligation = f[1]
			case "instance":
				k.Instance = f[1]
			}
		}
		out = append(out, k)
	}
	return out
}

// splitKV parses key=value pairs where values may be quoted with "".
func splitKV(s string) [][2]string {
	var out [][2]string
	re := regexp.MustCompile(`(\w+)=("([^"]*)"|\S+)`)
	for _, m := range re.FindAllStringSubmatch(s, -1) {
		v := m[2]
		if strings.HasPrefix(v, "\"") {
			v = m[3]
		}
		out = append(out, [2]string{m[1], v})
	}
	return out
}

type OblResult struct {
	Name      string   `json:"name"`
	Func      string   `json:"func"`
	Kind      string   `json:"kind"`
	Status    string   `json:"status"` // discharged | failed | undecided | known-finding
	Instances int      `json:"instances"`
	Solvers   []string `json:"solvers,omitempty"`
	Ms        int64    `json:"ms"`
	Detail    string   `json:"detail,omitempty"`
	failing   []*Discharged
}

type Baseline map[string]map[string]bool // property -> obligation name -> true

func loadBaseline() Baseline {
	b := Baseline{}
	data, err := os.ReadFile(filepath.Join(verifDir, "baseline_obligations.json"))
	if err != nil {
		return b
	}
	var raw map[string][]string
	if json.Unmarshal(data, &raw) != nil {
		return b
	}
	for p, names := range raw {
		b[p] = map[string]bool{}
		for _, n := range names {
			b[p][n] = true
		}
	}
	return b
}

func envInt(name string, def int) int {
	if v := os.Getenv(name); v != "" {
		if n, err := strconv.Atoi(v); err == nil {
			return n
		}
	}
	return def
}

// propertyRoots: functions with a contract tagged for the property, and lemma functions lemma<ID>_*.
func (e *Engine) propertyRoots(id string) []*ssa.Function {
	var out []*ssa.Function
	seen := map[*ssa.Function]bool{}
	for name, c := range e.byFn {
		ps := append([]string{}, c.Props...)
		for _, cl := range c.Ensures {
			ps = append(ps, cl.Props...)
		}
		for _, p := range ps {
			if p == id && !c.Trusted {
				if f := e.allFuncs[name]; f != nil && !seen[f] {
					if strings.Contains(f.Name(), "_slow_") && !e.thorough {
						continue // heavy lemma: thorough tier only
					}
					seen[f] = true
					out = append(out, f)
				}
			}
		}
	}
	for name, f := range e.allFuncs {
		if f.Pkg != nil && strings.HasPrefix(f.Pkg.Pkg.Path(), modPath) && strings.HasPrefix(f.Name(), "lemma"+id+"_") && f.Blocks != nil && f.Synthetic == "" {
			if c := e.byFn[name]; c != nil && c.Inline && len(c.Props) == 0 {
				continue // helper shared by several lemmas: verified where it is inlined
			}
			if strings.Contains(f.Name(), "_slow_") && !e.thorough {
				continue // heavy lemma: thorough tier only
			}
			if !seen[f] {
				seen[f] = true
				out = append(out, f)
			}
		}
	}
	sort.Slice(out, func(i, j int) bool { return out[i].String() < out[j].String() })
	return out
}

type CheckRun struct {
	Property  string
	Tier      string
	Seed      int
	Reports   []*FuncReport
	Results   []*OblResult
	Trusted   map[string]string
	wall      time.Duration
	solverMs  int64
	byBackend map[string]int
}

func cmdCheck(args []string) {
	fs := flag.NewFlagSet("check", flag.ExitOnError)
	repo := fs.String("repo", "/repo", "repository")
	prop := fs.String("p", "", "property id")
	tier := fs.String("tier", "quick", "quick|thorough")
	writeBaseline := fs.Bool("write-baseline", false, "record discharged obligations as the baseline alarm set")
	verbose := fs.Bool("v", false, "verbose")
	fs.Parse(args)
	if t := os.Getenv("VERIF_TIER"); t == "quick" || t == "thorough" {
		*tier = t
	}
	seed := envInt("VERIF_SEED", 0)
	t0 := time.Now()
	eng, err := LoadEngine(*repo, []string{"./..."})
	if err != nil {
		engineFailure(*prop, *tier, seed, "ENGINE-LOAD: "+err.Error(), t0)
	}
	if err := eng.LoadContracts(); err != nil {
		engineFailure(*prop, *tier, seed, "ENGINE-CONTRACTS: "+err.Error(), t0)
	}
	eng.thorough = *tier == "thorough"
	timeout := 40
	if *tier == "thorough" {
		timeout = 300
	}
	timeout = envInt("GOV_OBL_SECONDS", timeout)
	run := eng.RunProperty(*prop, *tier, seed, timeout)
	run.wall = time.Since(t0)
	code := run.Report(eng, *writeBaseline, *verbose)
	os.Exit(code)
}

// engineFailure: the tree cannot be analysed at all (does not build with the tag,
// contracts do not bind).  Every baseline obligation of the property is then
// undischarged: report it as such.
func engineFailure(prop, tier string, seed int, msg string, t0 time.Time) {
	fmt.Println(msg)
	os.MkdirAll(filepath.Join(verifDir, "replays", prop), 0o755)
	path := filepath.Join(verifDir, "replays", prop, "engine-failure.json")
	b, _ := json.MarshalIndent(map[string]interface{}{
		"property": prop, "obligation": "all (the tree could not be loaded or the contracts no longer bind)",
		"verifier_output": msg, "failing_input": nil,
	}, "", " ")
	os.WriteFile(path, b, 0o644)
	ev := map[string]interface{}{
		"property_id": prop, "tier": tier, "seed": seed, "level": "proof",
		"coverage": map[string]interface{}{"obligations": 1, "discharged": 0, "checker_cmd": strings.Join(os.Args, " "),
			"trusted_base": []string{}, "explanation": msg},
		"wall_s": time.Since(t0).Seconds(), "violations": 1,
	}
	writeJSON(filepath.Join(verifDir, "evidence", prop+".json"), ev)
	fmt.Printf("VIOLATION property=%s replay=%s no-failing-input-found\n", prop, path)
	os.Exit(1)
}

func writeJSON(path string, v interface{}) {
	os.MkdirAll(filepath.Dir(path), 0o755)
	b, _ := json.MarshalIndent(v, "", " ")
	os.WriteFile(path, b, 0o644)
}

func (e *Engine) RunProperty(id, tier string, seed, timeout int) *CheckRun {
	run := &CheckRun{Property: id, Tier: tier, Seed: seed, Trusted: map[string]string{}, byBackend: map[string]int{}}
	work := e.propertyRoots(id)
	isRoot := map[*ssa.Function]bool{}
	for _, f := range work {
		isRoot[f] = true
	}
	done := map[*ssa.Function]bool{}
	var all []*Obligation
	for len(work) > 0 {
		fn := work[0]
		work = work[1:]
		if done[fn] {
			continue
		}
		done[fn] = true
		rep := e.VerifyFunction(fn)
		rep.isRoot = isRoot[fn]
		run.Reports = append(run.Reports, rep)
		all = append(all, rep.Obls...)
		for _, failed := range rep.Failed {
			all = append(all, &Obligation{Name: rep.Fn + "#tool", Func: rep.Fn, Label: "tool", Kind: "tool", Goal: False, Where: failed})
		}
		// closure: every contract used at a call site must itself be verified
		for _, u := range rep.UsedCtr {
			if f := e.allFuncs[u]; f != nil && !done[f] {
				if c := e.byFn[u]; c != nil && c.Trusted {
					run.Trusted[u] = c.TrustWhy
					continue
				}
				if f.Blocks != nil {
					work = append(work, f)
				}
			}
		}
	}
	// package-level obligations (init establishes the global invariants; immutable globals)
	pkgsSeen := map[string]bool{}
	for _, rep := range append([]*FuncReport{}, run.Reports...) {
		fn := e.funcByShort(rep.Fn)
		if fn == nil || fn.Pkg == nil {
			continue
		}
		pp := fn.Pkg.Pkg.Path()
		if pkgsSeen[pp] {
			continue
		}
		pkgsSeen[pp] = true
		if prep := e.VerifyPackageGlobals(pp); prep != nil {
			run.Reports = append(run.Reports, prep)
			all = append(all, prep.Obls...)
			for _, failed := range prep.Failed {
				all = append(all, &Obligation{Name: prep.Fn + "#tool", Func: prep.Fn, Label: "tool", Kind: "tool", Goal: False, Where: failed})
			}
		}
	}
	// discharge
	var real []*Obligation
	for _, o := range all {
		if o.Kind != "tool" {
			real = append(real, o)
		}
	}
	ds := DischargeAll(real, timeout, seed, 10, os.Getenv("GOV_DUMP"))
	// An obligation of the baseline that merely ran out of solver time is re-tried alone with four times
	// the budget before it can be reported: on a slower or busier host a proof that takes 15 s here must not
	// turn into an alarm. Re-trying stops at the first obligation that still fails (the tree is then
	// reported as violating anyway, and a changed tree should not cost hours of solver time).
	if base := loadBaseline()[id]; base != nil {
		for _, d := range ds {
			if d.Res.Status != "timeout" && d.Res.Status != "unknown" {
				continue
			}
			if !base[d.Obl.Name] {
				continue
			}
			script, q, _ := d.Obl.Script("", nil)
			if len(script) > 4<<20 {
				continue
			}
			r := Solve(script, q, 4*timeout, seed+1, false)
			r.Ms += d.Res.Ms
			if r.Status == "unsat" {
				fmt.Fprintf(os.Stderr, "note: %s needed the extended solver budget (%d ms)\n", d.Obl.Name, r.Ms)
				d.Res = r
				continue
			}
			if r.Status == "sat" {
				d.Res = r
			}
			break
		}
	}
	byName := map[string]*OblResult{}
	var order []string
	get := func(o *Obligation) *OblResult {
		r := byName[o.Name]
		if r == nil {
			r = &OblResult{Name: o.Name, Func: o.Func, Kind: o.Kind, Status: "discharged"}
			byName[o.Name] = r
			order = append(order, o.Name)
		}
		return r
	}
	for _, d := range ds {
		r := get(d.Obl)
		r.Instances++
		r.Ms += d.Res.Ms
		run.solverMs += d.Res.Ms
		if d.Res.Status == "unsat" {
			run.byBackend[d.Res.Solver]++
			found := false
			for _, s := range r.Solvers {
				if s == d.Res.Solver {
					found = true
				}
			}
			if !found {
				r.Solvers = append(r.Solvers, d.Res.Solver)
			}
		} else {
			r.Status = "failed"
			r.failing = append(r.failing, d)
		}
	}
	for _, rep := range run.Reports {
		for n, k := range rep.TrivialNames {
			if byName[n] == nil {
				byName[n] = &OblResult{Name: n, Func: rep.Fn, Kind: k, Status: "discharged", Solvers: []string{"simplifier"}}
				order = append(order, n)
			}
			byName[n].Instances++
		}
	}
	// one pseudo-obligation per function: "the function could be analysed" (no tool failure). It is in
	// the baseline like any other; a function of the unchanged tree's closure that can no longer be
	// analysed (unmodelled library call, unsupported construct, budget) leaves its safety and frame
	// obligations unestablished and is reported, not silently skipped.
	for _, rep := range run.Reports {
		n := rep.Fn + "#analysed"
		r := &OblResult{Name: n, Func: rep.Fn, Kind: "tool", Status: "discharged", Solvers: []string{"engine"}, Instances: 1}
		if len(rep.Failed) > 0 {
			r.Status = "failed"
			r.failing = append(r.failing, &Discharged{&Obligation{Name: n, Func: rep.Fn, Label: "analysed", Kind: "tool", Goal: False, Where: strings.Join(rep.Failed, "; ")}, &SolveResult{Status: "tool", Output: strings.Join(rep.Failed, "; ")}})
		}
		byName[n] = r
		order = append(order, n)
	}
	for _, o := range all {
		if o.Kind == "tool" {
			r := get(o)
			r.Instances++
			r.Status = "failed"
			r.failing = append(r.failing, &Discharged{o, &SolveResult{Status: "tool", Output: o.Where}})
		}
	}
	sort.Strings(order)
	// attribution: an obligation belongs to this property if its clause is tagged with it,
	// or it is untagged and its function is tagged with it or has no tag at all (closure member)
	// every clause of a contract that some function of this run applies at a call site is an
	// assumption of this property's proofs: it belongs to the property whatever it is tagged with
	usedShort := map[string]bool{}
	for _, rep := range run.Reports {
		for _, u := range rep.UsedCtr {
			usedShort[shortName(u)] = true
		}
	}
	relevant := func(rep *FuncReport, name string) bool {
		if usedShort[rep.Fn] {
			return true
		}
		if ps, ok := rep.ClauseProps[name]; ok {
			for _, p := range ps {
				if p == id {
					return true
				}
			}
			return false
		}
		if len(rep.FnProps) == 0 {
			return true
		}
		for _, p := range rep.FnProps {
			if p == id {
				return true
			}
		}
		// untagged clause of a function tagged only for other properties but reached through the closure
		return !rep.isRoot
	}
	repOf := map[string]*FuncReport{}
	for _, rep := range run.Reports {
		repOf[rep.Fn] = rep
	}
	for _, n := range order {
		r := byName[n]
		if rep := repOf[r.Func]; rep != nil && !relevant(rep, n) {
			continue
		}
		run.Results = append(run.Results, r)
	}
	return run
}

func (run *CheckRun) Report(e *Engine, writeBaseline, verbose bool) int {
	id := run.Property
	known := loadKnownFindings(filepath.Join(verifDir, "known_findings.txt"))
	baseline := loadBaseline()
	base := baseline[id]
	var violations []string
	var undecided []string
	var knownLines []string
	nObl, nDis := 0, 0
	replayDir := filepath.Join(verifDir, "replays", id)
	var samples []interface{}
	for _, r := range run.Results {
		if r.Status == "discharged" {
			nObl++
			nDis++
			if len(samples) < 4 {
				samples = append(samples, map[string]interface{}{"obligation": r.Name, "kind": r.Kind, "instances": r.Instances, "solvers": r.Solvers, "ms": r.Ms, "status": "unsat"})
			}
			continue
		}
		// failed: split instances into known findings and others
		var unexplained []*Discharged
		for _, d := range r.failing {
			matched := false
			for _, k := range known {
				// a recorded finding is identified by its obligation; it may surface under every property
				// whose proofs use that contract
				if k.Fixed || k.Obligation != r.Name {
					continue
				}
				desc := d.Obl.Where + " " + d.Obl.Label + " " + modelString(d.Res.Model)
				if k.Instance == "" || strings.Contains(desc, k.Instance) {
					matched = true
					if !k.seen {
						k.seen = true
						knownLines = append(knownLines, fmt.Sprintf("KNOWN-FINDING: property=%s %s %s", id, r.Name, k.Text))
					}
				}
			}
			if !matched {
				unexplained = append(unexplained, d)
			}
		}
		if len(unexplained) == 0 {
			r.Status = "known-finding"
			continue
		}
		nObl++
		// replay
		d := unexplained[0]
		for _, u := range unexplained {
			if u.Res.Status == "sat" {
				d = u
				break
			}
		}
		os.MkdirAll(replayDir, 0o755)
		rp := filepath.Join(replayDir, sanitize(r.Name)+".json")
		confirmed, rinfo := e.tryReplay(d)
		rec := map[string]interface{}{
			"property": id, "obligation": r.Name, "function": r.Func, "kind": r.Kind,
			"clause_or_location": d.Obl.Where, "solver_status": d.Res.Status, "solvers_tried": d.Res.Tried,
			"verifier_output": truncate(d.Res.Output, 4000), "model": d.Res.Model, "replay": rinfo,
			"failing_instances": len(unexplained), "in_baseline": base[r.Name],
		}
		writeJSON(rp, rec)
		r.Detail = fmt.Sprintf("%s: %s", d.Res.Status, d.Obl.Where)
		if base[r.Name] || confirmed || base == nil && false {
			line := fmt.Sprintf("VIOLATION property=%s replay=%s", id, rp)
			if !confirmed {
				line += " no-failing-input-found"
			}
			violations = append(violations, line)
			samples = append(samples, map[string]interface{}{"obligation": r.Name, "status": d.Res.Status, "where": d.Obl.Where, "model": d.Res.Model})
		} else {
			r.Status = "undecided"
			nObl--
			undecided = append(undecided, r.Name+" ("+d.Res.Status+")")
		}
	}
	// baseline obligations that no longer exist are undischarged too
	if base != nil && !writeBaseline {
		have := map[string]bool{}
		for _, r := range run.Results {
			have[r.Name] = true
		}
		var missing []string
		for n := range base {
			// only clause-level obligations (postconditions, lemma assertions, loop invariants) are
			// structural; safety / frame / precondition names exist only for the paths explored
			// (solver-based pruning may or may not cut an infeasible path) and are not required to recur
			if strings.Contains(n, "#safe:") || strings.Contains(n, "#frame") || strings.Contains(n, "#pre:") || strings.HasSuffix(n, ":frame") {
				continue
			}
			if !have[n] && !(run.Tier != "thorough" && strings.Contains(n, "slow_")) {
				missing = append(missing, n)
			}
		}
		sort.Strings(missing)
		if len(missing) > 0 {
			os.MkdirAll(replayDir, 0o755)
			rp := filepath.Join(replayDir, "missing-obligations.json")
			writeJSON(rp, map[string]interface{}{"property": id, "obligation": strings.Join(missing, ", "),
				"verifier_output": "these obligations were discharged on the unchanged tree and are no longer generated (function or clause removed/renamed): nothing establishes them any more",
				"failing_input":   nil})
			violations = append(violations, fmt.Sprintf("VIOLATION property=%s replay=%s no-failing-input-found", id, rp))
			nObl += len(missing)
		}
	}
	// vacuity guards
	var engineErr []string
	if len(run.Results) == 0 {
		engineErr = append(engineErr, "ENGINE-VACUITY: no obligations generated for "+id)
	}
	for _, rep := range run.Reports {
		if rep.Paths == 0 && len(rep.Failed) == 0 {
			engineErr = append(engineErr, "ENGINE-VACUITY: no feasible path reaches a return in "+rep.Fn)
		}
	}
	// output
	for _, l := range knownLines {
		fmt.Println(l)
	}
	for _, l := range violations {
		fmt.Println(l)
	}
	for _, l := range engineErr {
		fmt.Println(l)
	}
	if verbose || len(violations) > 0 {
		for _, r := range run.Results {
			if r.Status != "discharged" {
				fmt.Printf("  %-12s %s  %s\n", r.Status, r.Name, r.Detail)
			}
		}
	}
	var fns []map[string]interface{}
	inl := map[string]bool{}
	intr := map[string]bool{}
	trivial := 0
	for _, rep := range run.Reports {
		fns = append(fns, map[string]interface{}{"function": rep.Fn, "has_contract": rep.HasCtr, "paths": rep.Paths, "obligation_instances": len(rep.Obls), "safety_checks_folded_by_simplifier": rep.Trivial})
		for _, i := range rep.Inlined {
			inl[shortName(i)] = true
		}
		for _, i := range rep.Intrinsic {
			intr[i] = true
		}
		trivial += rep.Trivial
	}
	var trusted []string
	for k, v := range run.Trusted {
		trusted = append(trusted, "assumed contract (not verified): "+shortName(k)+" — "+v)
	}
	sort.Strings(trusted)
	assumptions := append([]string{}, trusted...)
	for _, i := range keys(intr) {
		assumptions = append(assumptions, "engine model of "+i)
	}
	assumptions = append(assumptions, globalAssumptions...)
	tb := []string{"go/packages+go/ssa (x/tools v0.29.0) lowering of /repo's working tree", "gov symbolic semantics of SSA instructions (DESIGN.md §4)", "SMT solvers: z3 5.1.0, cvc5 1.0, z3 4.8.12 (an unsat from any one is accepted)"}
	tb = append(tb, trusted...)
	ev := map[string]interface{}{
		"property_id": id, "tier": run.Tier, "seed": run.Seed, "level": "proof",
		"coverage": map[string]interface{}{
			"obligations": nObl, "discharged": nDis,
			"checker_cmd":                        "bin/gov check -p " + id + " -tier " + run.Tier + " (VCs generated from go/ssa of /repo, discharged by z3-new / cvc5 / z3)",
			"trusted_base":                       tb,
			"samples":                            samples,
			"functions_under_contract":           fns,
			"inlined_callees":                    keys(inl),
			"by_backend":                         run.byBackend,
			"solver_time_s":                      float64(run.solverMs) / 1000,
			"undecided":                          undecided,
			"known_findings":                     knownLines,
			"obligation_results":                 run.Results,
			"safety_checks_folded_by_simplifier": trivial,
		},
		"assumptions": assumptions,
		"wall_s":      run.wall.Seconds(),
		"violations":  len(violations),
	}
	if nObl == 0 {
		ev["coverage"].(map[string]interface{})["obligations"] = 0
	}
	// stand-ins (thorough tier): exhaustive / bounded evaluation of the REAL code for an obligation the
	// solvers do not decide. Never counted as proved; a failing input is a confirmed violation.
	{
		sis, siViol := runStandIns(id, run.Tier)
		if len(sis) > 0 {
			ev["coverage"].(map[string]interface{})["stand_ins_not_counted_as_proved"] = sis
			for _, v := range siViol {
				fmt.Println(v)
				violations = append(violations, v)
			}
			ev["violations"] = len(violations)
		}
	}
	writeJSON(filepath.Join(verifDir, "evidence", id+".json"), ev)
	fmt.Printf("property %s tier=%s: %d obligations, %d discharged, %d known findings, %d undecided, %d violations, %.1fs (solver %.1fs)\n",
		id, run.Tier, nObl, nDis, len(knownLines), len(undecided), len(violations), run.wall.Seconds(), float64(run.solverMs)/1000)
	if writeBaseline {
		raw := map[string][]string{}
		for p, m := range baseline {
			if p == id {
				continue
			}
			for n := range m {
				raw[p] = append(raw[p], n)
			}
			sort.Strings(raw[p])
		}
		for _, r := range run.Results {
			if r.Status == "discharged" {
				raw[id] = append(raw[id], r.Name)
			} else if base[r.Name] && r.Status != "known-finding" {
				// an obligation of the alarm set that fails now stays in the alarm set: rewriting the baseline
				// must never make a violation disappear
				raw[id] = append(raw[id], r.Name)
			}
		}
		if run.Tier != "thorough" {
			// obligations that exist in the thorough tier only stay in the alarm set
			for n := range baseline[id] {
				if strings.Contains(n, "slow_") {
					raw[id] = append(raw[id], n)
				}
			}
		}
		sort.Strings(raw[id])
		writeJSON(filepath.Join(verifDir, "baseline_obligations.json"), raw)
	}
	if len(engineErr) > 0 {
		return 2
	}
	if len(violations) > 0 {
		return 1
	}
	return 0
}

var globalAssumptions = []string{
	"pointer parameters point at whole objects; partial overlap between differently-typed pointer arguments is not modelled",
	"no object is larger than 2^62 bytes; distinct allocations do not overlap",
	"strings are opaque ids with uninterpreted length/concatenation",
	"termination is not claimed except where a decreases clause is discharged",
}

func truncate(s string, n int) string {
	if len(s) > n {
		return s[:n] + "…"
	}
	return s
}

func modelString(m map[string]string) string {
	var ks []string
	for k := range m {
		ks = append(ks, k)
	}
	sort.Strings(ks)
	var sb strings.Builder
	for _, k := range ks {
		sb.WriteString(k + "=" + m[k] + " ")
	}
	return sb.String()
}

// tryReplay: placeholder until replay.go provides the real thing.
func (e *Engine) tryReplay(d *Discharged) (bool, interface{}) {
	return replayObligation(e, d)
}

func (e *Engine) funcByShort(short string) *ssa.Function {
	if e.shortIdx == nil {
		e.shortIdx = map[string]*ssa.Function{}
		for _, f := range e.allFuncs {
			e.shortIdx[shortFn(f)] = f
		}
	}
	return e.shortIdx[short]
}

// runStandIns runs /verif/standins/<id>_*_test.go.txt as an in-package test of /repo (overlay, nothing is
// written into /repo). The test prints STANDIN-FAIL lines for failing inputs and one STANDIN-DONE line.
func runStandIns(id, tier string) ([]map[string]interface{}, []string) {
	files, _ := filepath.Glob(filepath.Join(verifDir, "standins", id+"_*_test.go.txt"))
	var out []map[string]interface{}
	var viol []string
	for _, f := range files {
		src, err := os.ReadFile(f)
		if err != nil {
			continue
		}
		if tier != "thorough" {
			// the quick tier runs only the stand-ins that declare `// tier: quick` (a few seconds each)
			quick := false
			for _, ln := range strings.SplitN(string(src), "\n", 5) {
				if strings.TrimSpace(ln) == "// tier: quick" {
					quick = true
				}
			}
			if !quick {
				continue
			}
		}
		pkgdir := "."
		if ls := strings.SplitN(string(src), "\n", 2); strings.HasPrefix(ls[0], "// pkgdir:") {
			pkgdir = strings.TrimSpace(strings.TrimPrefix(ls[0], "// pkgdir:"))
		}
		tmp, err := os.MkdirTemp("", "govstandin")
		if err != nil {
			continue
		}
		tf := filepath.Join(tmp, "zz_standin_test.go")
		os.WriteFile(tf, src, 0o644)
		target := filepath.Join("/repo", pkgdir, "zz_standin_test.go")
		ov, _ := json.Marshal(map[string]interface{}{"Replace": map[string]string{target: tf}})
		ovf := filepath.Join(tmp, "ov.json")
		os.WriteFile(ovf, ov, 0o644)
		t0 := time.Now()
		tmo := "1500s"
		if tier != "thorough" {
			tmo = "300s" // quick-tier stand-ins take seconds; a changed tree that makes one hang must not block the check
		}
		args := []string{"test", "-overlay", ovf, "-vet=off", "-count=1", "-timeout", tmo, "-v"}
		for _, ln := range strings.SplitN(string(src), "\n", 4) {
			if strings.HasPrefix(ln, "// goflags:") {
				args = append(args, strings.Fields(strings.TrimPrefix(ln, "// goflags:"))...)
			}
		}
		args = append(args, "-run", "TestZZStandIn", ".")
		cmd := exec.Command("go", args...)
		cmd.Dir = filepath.Join("/repo", pkgdir)
		cmd.Env = append(os.Environ(), "GOFLAGS=-mod=mod", "GOPROXY=off", "GOSUMDB=off", "GOTOOLCHAIN=local")
		b, _ := cmd.CombinedOutput()
		os.RemoveAll(tmp)
		res := map[string]interface{}{"file": filepath.Base(f), "kind": "evaluation of the real code over the input space stated in the file header (exhaustive for C17_frequency, bounded pseudo-random otherwise); not deductive, NOT counted as proved", "wall_s": time.Since(t0).Seconds()}
		var fails []string
		done := ""
		for _, ln := range strings.Split(string(b), "\n") {
			if strings.HasPrefix(ln, "STANDIN-FAIL") {
				fails = append(fails, ln)
			}
			if strings.HasPrefix(ln, "STANDIN-DONE") {
				done = ln
			}
		}
		if i := strings.Index(string(b), "WARNING: DATA RACE"); i >= 0 {
			fails = append(fails, "STANDIN-FAIL class=data-race reported by the Go race detector: "+strings.ReplaceAll(truncate(string(b)[i:], 900), "\n", " | "))
		}
		// a failure class listed in known_findings.txt (obligation = "standin:<file stem>:<class>") is a recorded
		// finding: reported as such, not as a violation; every other failing input still is one
		stem := strings.TrimSuffix(filepath.Base(f), "_test.go.txt")
		var unexplained, knownHits []string
		for _, ln := range fails {
			matched := false
			for _, k := range loadKnownFindings(filepath.Join(verifDir, "known_findings.txt")) {
				if k.Fixed || !strings.HasPrefix(k.Obligation, "standin:"+stem+":") {
					continue
				}
				cl := strings.TrimPrefix(k.Obligation, "standin:"+stem+":")
				if strings.Contains(ln, "class="+cl+" ") {
					matched = true
					line := fmt.Sprintf("KNOWN-FINDING: property=%s %s %s", id, k.Obligation, k.Text)
					dup := false
					for _, h := range knownHits {
						dup = dup || h == line
					}
					if !dup {
						knownHits = append(knownHits, line)
					}
				}
			}
			if !matched {
				unexplained = append(unexplained, ln)
			}
		}
		for _, h := range knownHits {
			fmt.Println(h)
		}
		res["known_findings"] = knownHits
		fails = unexplained
		res["summary"] = done
		res["failing_inputs"] = fails
		if done == "" {
			res["summary"] = "stand-in did not complete: " + truncate(string(b), 400)
		}
		out = append(out, res)
		if len(fails) > 0 {
			rp := filepath.Join(verifDir, "replays", id, "standin_"+strings.TrimSuffix(filepath.Base(f), "_test.go.txt")+".json")
			os.MkdirAll(filepath.Dir(rp), 0o755)
			writeJSON(rp, map[string]interface{}{"property": id, "obligation": "stand-in " + filepath.Base(f), "failing_input": fails, "verifier_output": done})
			viol = append(viol, fmt.Sprintf("VIOLATION property=%s replay=%s", id, rp))
		}
	}
	return out, viol
}
