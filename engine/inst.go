package main

import "fmt"

// Goal-directed instantiation.  A quantified goal  forall i. G(i)  is skolemised by the engine
// (fresh constants sk), and every index-quantified assumption  forall j. A(j)  (bit-vector binders,
// possibly below conjunctions / implication consequents) is additionally instantiated at the skolem
// constants.  Adding instances of assumed universal formulas is sound; the quantified
// assumptions themselves stay in the script.  This turns most loop-invariant and copy obligations into
// (nearly) ground problems and removes their dependence on the solvers' trigger heuristics.

var skCounter int

func quantParts(t *Term) (body *Term, vars []*Term) {
	body = t.Args[0]
	vars = t.Args[1:]
	if t.Name == "pat" {
		vars = vars[:len(vars)-1]
	}
	return
}

// skolemiseGoal returns the goal with its positive-position universal quantifiers over bit-vectors
// replaced by fresh constants, and those constants.
func skolemiseGoal(g *Term) (*Term, []*Term) {
	var sks []*Term
	var rec func(t *Term, depth int) *Term
	rec = func(t *Term, depth int) *Term {
		if depth > 6 {
			return t
		}
		switch t.Op {
		case "forall":
			body, vars := quantParts(t)
			m := map[*Term]*Term{}
			for _, v := range vars {
				if !v.Sort.IsBV() {
					return t
				}
			}
			for _, v := range vars {
				skCounter++
				c := Var(fmt.Sprintf("sk!%s!%d", sanitizeName(v.Name), skCounter), v.Sort)
				m[v] = c
				sks = append(sks, c)
			}
			return rec(Subst(body, m), depth+1)
		case "=>":
			return Implies(t.Args[0], rec(t.Args[1], depth+1))
		case "and":
			var as []*Term
			for _, a := range t.Args {
				as = append(as, rec(a, depth+1))
			}
			return And(as...)
		}
		return t
	}
	return rec(g, 0), sks
}

func sanitizeName(s string) string {
	out := []byte{}
	for i := 0; i < len(s); i++ {
		c := s[i]
		if (c >= 'a' && c <= 'z') || (c >= 'A' && c <= 'Z') || (c >= '0' && c <= '9') {
			out = append(out, c)
		}
	}
	return string(out)
}

// instances of assumption a at the candidate terms (by sort width)
func instancesOf(a *Term, cands []*Term, limit *int) []*Term {
	var out []*Term
	var rec func(t *Term, wrap func(*Term) *Term, depth int)
	rec = func(t *Term, wrap func(*Term) *Term, depth int) {
		if depth > 4 || *limit <= 0 {
			return
		}
		switch t.Op {
		case "forall":
			body, vars := quantParts(t)
			if len(vars) != 1 || !vars[0].Sort.IsBV() {
				return
			}
			for _, c := range cands {
				if c.Sort != vars[0].Sort || *limit <= 0 {
					continue
				}
				inst := Subst(body, map[*Term]*Term{vars[0]: c})
				*limit--
				if hasQuant([]*Term{inst}) {
					// nested quantifier: keep the (now less quantified) instance and descend
					out = append(out, wrap(inst))
					rec(inst, wrap, depth+1)
				} else {
					out = append(out, wrap(inst))
				}
			}
		case "=>":
			guard := t.Args[0]
			rec(t.Args[1], func(x *Term) *Term { return wrap(Implies(guard, x)) }, depth+1)
		case "and":
			for _, x := range t.Args {
				rec(x, wrap, depth+1)
			}
		}
	}
	rec(a, func(x *Term) *Term { return x }, 0)
	return out
}

// prepareGoal: (negated-goal body, extra ground assumptions)
func prepareGoal(assumes []*Term, goal *Term) (*Term, []*Term) {
	// a goal that is a boolean name defined by an assumption (result of a contract call:
	// r <==> body) is replaced by its definition, so that quantifiers in it can be skolemised
	if goal.Op == "var" && goal.Sort == SBool {
		for _, a := range assumes {
			if a.Op == "=" && len(a.Args) == 2 {
				if a.Args[0] == goal && a.Args[1].Sort == SBool {
					goal = a.Args[1]
					break
				}
				if a.Args[1] == goal && a.Args[0].Sort == SBool {
					goal = a.Args[0]
					break
				}
			}
		}
	}
	g, sks := skolemiseGoal(goal)
	if len(sks) == 0 {
		return goal, nil
	}
	var cands []*Term
	for _, s := range sks {
		cands = append(cands, s)
	}
	limit := 400
	var extra []*Term
	for _, a := range assumes {
		if !hasQuant([]*Term{a}) {
			continue
		}
		extra = append(extra, instancesOf(a, cands, &limit)...)
	}
	return g, extra
}
