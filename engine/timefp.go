package main

// Models of time.Time (as an abstract instant: Unix nanoseconds kept in the ext field) and of
// the math functions used by the library (exact FloatingPoint theory operations).
//
// Assumption (reported): instants stay within 1678..2262 so that int64 nanoseconds do not
// overflow; wall-clock/monotonic encoding and locations of time.Time are not modelled
// (Add/Sub/Before depend only on the instant).

import (
	"time"

	"golang.org/x/tools/go/ssa"
)

func timeInstant(v Value) *Term { return v.(*TupleV).Elems[1].(*Term) }

func mkTime(ns *Term) Value {
	return &TupleV{Elems: []Value{BVc(0, 64), ns, NilAddr}}
}

func init() {
	intrinsics["time.Date"] = func(ex *Exec, fr *Frame, in ssa.Instruction, fn *ssa.Function, args []Value, st *State, cont callCont) {
		var n [7]int64
		for i := 0; i < 7; i++ {
			t, ok := args[i].(*Term)
			if !ok || !t.IsConst() {
				panic(abortPath{"time.Date with non-constant arguments"})
			}
			n[i] = t.Signed().Int64()
		}
		d := time.Date(int(n[0]), time.Month(n[1]), int(n[2]), int(n[3]), int(n[4]), int(n[5]), int(n[6]), time.UTC)
		cont(st, fr, mkTime(BVc(d.UnixNano(), 64)))
	}
	intrinsics["(time.Time).Add"] = func(ex *Exec, fr *Frame, in ssa.Instruction, fn *ssa.Function, args []Value, st *State, cont callCont) {
		cont(st, fr, mkTime(BVBin("bvadd", timeInstant(args[0]), args[1].(*Term))))
	}
	intrinsics["(time.Time).Sub"] = func(ex *Exec, fr *Frame, in ssa.Instruction, fn *ssa.Function, args []Value, st *State, cont callCont) {
		cont(st, fr, BVBin("bvsub", timeInstant(args[0]), timeInstant(args[1])))
	}
	intrinsics["(time.Time).Before"] = func(ex *Exec, fr *Frame, in ssa.Instruction, fn *ssa.Function, args []Value, st *State, cont callCont) {
		cont(st, fr, BVCmp("bvslt", timeInstant(args[0]), timeInstant(args[1])))
	}
	intrinsics["(time.Time).After"] = func(ex *Exec, fr *Frame, in ssa.Instruction, fn *ssa.Function, args []Value, st *State, cont callCont) {
		cont(st, fr, BVCmp("bvsgt", timeInstant(args[0]), timeInstant(args[1])))
	}
	intrinsics["(time.Time).Equal"] = func(ex *Exec, fr *Frame, in ssa.Instruction, fn *ssa.Function, args []Value, st *State, cont callCont) {
		cont(st, fr, Eq(timeInstant(args[0]), timeInstant(args[1])))
	}
	intrinsics["(time.Time).UnixNano"] = func(ex *Exec, fr *Frame, in ssa.Instruction, fn *ssa.Function, args []Value, st *State, cont callCont) {
		cont(st, fr, timeInstant(args[0]))
	}
	intrinsics["math.Ceil"] = func(ex *Exec, fr *Frame, in ssa.Instruction, fn *ssa.Function, args []Value, st *State, cont callCont) {
		cont(st, fr, mk("fp.roundToIntegral", SF64, mk("RTP", Sort("RoundingMode")), args[0].(*Term)))
	}
	intrinsics["math.Round"] = func(ex *Exec, fr *Frame, in ssa.Instruction, fn *ssa.Function, args []Value, st *State, cont callCont) {
		// Go: nearest integer, halves away from zero = IEEE roundToIntegral with mode RNA
		cont(st, fr, mk("fp.roundToIntegral", SF64, mk("RNA", Sort("RoundingMode")), args[0].(*Term)))
	}
	intrinsics["math.Floor"] = func(ex *Exec, fr *Frame, in ssa.Instruction, fn *ssa.Function, args []Value, st *State, cont callCont) {
		cont(st, fr, mk("fp.roundToIntegral", SF64, mk("RTN", Sort("RoundingMode")), args[0].(*Term)))
	}
	intrinsics["math.Max"] = func(ex *Exec, fr *Frame, in ssa.Instruction, fn *ssa.Function, args []Value, st *State, cont callCont) {
		// math.Max differs from fp.max only on NaN / signed zeros; encode Go's definition for the non-NaN case
		a, b := args[0].(*Term), args[1].(*Term)
		nan := Or(mk("fp.isNaN", SBool, a), mk("fp.isNaN", SBool, b))
		r := Ite(nan, FPConst64(nanValue()), Ite(FPCmp("fp.gt", a, b), a, Ite(FPCmp("fp.gt", b, a), b, Ite(mk("fp.isNegative", SBool, a), b, a))))
		cont(st, fr, r)
	}
	// spec builtin: unixnano(t) -- the instant of a time.Time value
	specBuiltins["unixnano"] = func(e *SpecEnv, args []TV) TV {
		tv, ok := args[0].V.(*TupleV)
		if !ok || len(tv.Elems) != 3 {
			sfail("unixnano(time.Time)")
		}
		return TV{V: tv.Elems[1], T: basicByName("int64")}
	}
}

func nanValue() float64 {
	var z float64
	return z / zeroDiv()
}
func zeroDiv() float64 { var z float64; return z }
