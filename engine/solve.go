package main

import (
	"bytes"
	"context"
	"fmt"
	"os"
	"os/exec"
	"regexp"
	"sort"
	"strings"
	"sync"
	"time"
)

type SolverCfg struct {
	Name string
	Cmd  []string // reads script from stdin
}

func solverConfigs(timeoutS int, seed int) []SolverCfg {
	ms := fmt.Sprintf("%d", timeoutS*1000)
	return []SolverCfg{
		{"z3-5.1", []string{"z3-new", "-in", "-smt2", "-t:" + ms, fmt.Sprintf("smt.random_seed=%d", seed), fmt.Sprintf("sat.random_seed=%d", seed)}},
		{"cvc5-1.0", []string{"cvc5", "--lang=smt2", "--tlimit=" + ms, fmt.Sprintf("--seed=%d", seed), "--produce-models"}},
		{"cvc5-1.0-enum", []string{"cvc5", "--lang=smt2", "--tlimit=" + ms, fmt.Sprintf("--seed=%d", seed), "--produce-models", "--enum-inst"}},
		{"z3-4.8", []string{"z3", "-in", "-smt2", "-t:" + ms, fmt.Sprintf("smt.random_seed=%d", seed)}},
		{"cvc5-1.0-intblast", []string{"cvc5", "--lang=smt2", "--tlimit=" + ms, fmt.Sprintf("--seed=%d", seed), "--solve-bv-as-int=sum"}},
		// without --produce-models cvc5 keeps preprocessing passes that decide many quantified goals in
		// about a second which the model-producing configuration does not decide at all
		{"cvc5-1.0-nomodel", []string{"cvc5", "--lang=smt2", "--tlimit=" + ms, fmt.Sprintf("--seed=%d", seed)}},
		{"cvc5-1.0-enum-nomodel", []string{"cvc5", "--lang=smt2", "--tlimit=" + ms, fmt.Sprintf("--seed=%d", seed), "--enum-inst"}},
	}
}

type SolveResult struct {
	Status    string // unsat | sat | unknown | timeout | error
	Solver    string
	Ms        int64
	Output    string
	Model     map[string]string
	Tried     []string
	Candidate bool // Model comes from the quantifier-free approximation (status stays unknown/timeout)
}

func runSolver(cfg SolverCfg, script string, hardTimeout time.Duration) (status string, out string, ms int64) {
	return runSolverCtx(context.Background(), cfg, script, hardTimeout)
}

func runSolverCtx(parent context.Context, cfg SolverCfg, script string, hardTimeout time.Duration) (status string, out string, ms int64) {
	ctx, cancel := context.WithTimeout(parent, hardTimeout)
	defer cancel()
	cmd := exec.CommandContext(ctx, cfg.Cmd[0], cfg.Cmd[1:]...)
	cmd.Stdin = strings.NewReader(script)
	var ob bytes.Buffer
	cmd.Stdout = &ob
	cmd.Stderr = &ob
	t0 := time.Now()
	_ = cmd.Run()
	ms = time.Since(t0).Milliseconds()
	out = ob.String()
	first := strings.TrimSpace(strings.SplitN(out, "\n", 2)[0])
	switch first {
	case "unsat", "sat", "unknown":
		status = first
	default:
		if ctx.Err() != nil || strings.Contains(out, "timeout") || strings.Contains(out, "interrupted") {
			status = "timeout"
		} else {
			status = "error"
		}
	}
	if status == "unknown" && (strings.Contains(out, "timeout") || strings.Contains(out, "canceled")) {
		status = "timeout"
	}
	return
}

// Solve: stage 1 runs z3 5.1 briefly (most obligations are decided in milliseconds);
// stage 2 races the whole portfolio with the full budget and takes the first sat/unsat.
func Solve(script string, quantified bool, timeoutS int, seed int, all bool) *SolveResult {
	res := &SolveResult{Status: "unknown"}
	withLogic := func(cfg SolverCfg) string {
		if strings.HasPrefix(cfg.Name, "cvc5") {
			return "(set-logic ALL)\n" + script
		}
		return script
	}
	quick := 3
	if timeoutS < quick {
		quick = timeoutS
	}
	first := solverConfigs(quick, seed)[0]
	if quantified {
		first = solverConfigs(quick, seed)[1]
	}
	st, out, ms := runSolver(first, withLogic(first), time.Duration(quick+3)*time.Second)
	res.Tried = append(res.Tried, fmt.Sprintf("%s:%s:%dms", first.Name, st, ms))
	total := ms
	if st == "sat" || st == "unsat" {
		res.Status, res.Solver, res.Ms, res.Output = st, first.Name, total, out
		if st == "sat" {
			res.Model = parseModel(out)
		}
		return res
	}
	cfgs := solverConfigs(timeoutS, seed)
	if quantified {
		all := cfgs
		cfgs = []SolverCfg{all[5], all[1], all[6], all[0]} // cvc5 (no models), cvc5, cvc5 --enum-inst (no models), z3 5.1
		if strings.Contains(script, "(bvmul ") || strings.Contains(script, "(bvsdiv ") || strings.Contains(script, "(bvsrem ") || strings.Contains(script, "(bvudiv ") || strings.Contains(script, "(bvurem ") {
			cfgs = append(cfgs, all[4]) // nonlinear bit-vector arithmetic: int-blasting
		}
	} else {
		cfgs = []SolverCfg{cfgs[0], cfgs[1], cfgs[4], cfgs[3]} // z3 5.1, cvc5, cvc5 int-blast, z3 4.8
	}
	type r struct {
		cfg     SolverCfg
		st, out string
		ms      int64
	}
	ch := make(chan r, len(cfgs))
	ctx, cancel := context.WithCancel(context.Background())
	defer cancel()
	for _, cfg := range cfgs {
		go func(cfg SolverCfg) {
			st, out, ms := runSolverCtx(ctx, cfg, withLogic(cfg), time.Duration(timeoutS+5)*time.Second)
			ch <- r{cfg, st, out, ms}
		}(cfg)
	}
	satNoModel := false
	for range cfgs {
		x := <-ch
		res.Tried = append(res.Tried, fmt.Sprintf("%s:%s:%dms", x.cfg.Name, x.st, x.ms))
		if x.st == "sat" && !strings.Contains(strings.Join(x.cfg.Cmd, " "), "--produce-models") && x.cfg.Cmd[0] == "cvc5" {
			// a model-less "sat": keep waiting for a solver that can print a model
			satNoModel = true
			if x.ms > total {
				total = x.ms
			}
			continue
		}
		if x.st == "sat" || x.st == "unsat" {
			res.Status, res.Solver, res.Ms, res.Output = x.st, x.cfg.Name, total+x.ms, x.out
			if x.st == "sat" {
				res.Model = parseModel(x.out)
			}
			return res
		}
		if x.st == "error" {
			res.Output += "[" + x.cfg.Name + "] " + firstLines(x.out, 5) + "\n"
		} else {
			if res.Status == "unknown" {
				res.Status = x.st
			}
			res.Output += "[" + x.cfg.Name + "] " + firstLines(x.out, 3) + "\n"
		}
		if x.ms > total {
			total = x.ms
		}
	}
	res.Ms = total
	if satNoModel {
		res.Status = "sat"
		res.Solver = "cvc5-1.0-nomodel"
	}
	return res
}

// smallModel: solvers like extreme values; a counterexample with slice lengths of 2^60 cannot be replayed.
// Ask again with every slice length / capacity / offset among the inputs bounded by 64; a model of the bounded
// query is a model of the original one. Nothing changes when the bounded query is not satisfiable.
var smallVarRe = regexp.MustCompile(`\(declare-const (\|[^|]*\.(?:len|cap|off)![0-9]+\||[^ |]*\.(?:len|cap|off)![0-9]+) \(_ BitVec 64\)\)`)

func smallModel(d *Discharged) {
	if d.Obl == nil || d.Res == nil || d.Res.Status != "sat" {
		return
	}
	big := false
	for k, v := range d.Res.Model {
		if strings.Contains(k, ".len!") || strings.Contains(k, ".cap!") {
			if n, ok := parseSMTInt(v); ok && (!n.IsInt64() || n.Int64() > 2048) {
				big = true
			}
		}
	}
	if !big {
		return
	}
	script, q, _ := d.Obl.Script("", nil)
	i := strings.LastIndex(script, "(check-sat)")
	if i < 0 {
		return
	}
	var sb strings.Builder
	for _, m := range smallVarRe.FindAllStringSubmatch(script, -1) {
		fmt.Fprintf(&sb, "(assert (bvule %s #x0000000000000040))\n", m[1])
	}
	r := Solve(script[:i]+sb.String()+script[i:], q, 10, 1, false)
	if r.Status == "sat" && len(r.Model) > 0 {
		r.Ms += d.Res.Ms
		d.Res = r
	}
}

// candidateModel: when no solver produced a model for a failing quantified obligation, ask for a
// model of its quantifier-free approximation (quantified assumptions and axioms dropped). Such a
// model is only a candidate input: it counts for nothing unless the replay on the real code confirms it.
func candidateModel(d *Discharged) {
	if (d.Res.Status == "sat" && len(d.Res.Model) > 0) || d.Res.Status == "unsat" || d.Obl == nil || d.Obl.ex == nil {
		return
	}
	o2 := *d.Obl
	o2.Approx = true
	script, _, _ := o2.Script("", nil)
	st, out, _ := runSolver(solverConfigs(15, 0)[0], script, 20*time.Second)
	if st != "sat" {
		return
	}
	d.Res.Model = parseModel(out)
	d.Res.Candidate = true
	d.Res.Output += "[candidate model from the quantifier-free approximation of the obligation; confirmed only by replay]\n"
	d.Obl = &o2
}

func firstLines(s string, n int) string {
	ls := strings.Split(strings.TrimSpace(s), "\n")
	if len(ls) > n {
		ls = ls[:n]
	}
	return strings.Join(ls, " | ")
}

var getValueRe = regexp.MustCompile(`\(\s*(\|[^|]*\||[^\s()]+)\s+(#x[0-9a-fA-F]+|#b[01]+|true|false|\(- \d+\)|\d+)\s*\)`)

func parseModel(out string) map[string]string {
	m := map[string]string{}
	for _, mm := range getValueRe.FindAllStringSubmatch(out, -1) {
		m[strings.Trim(mm[1], "|")] = mm[2]
	}
	return m
}

// ---------- obligation to script ----------

func hasQuant(ts []*Term) bool {
	seen := map[int]bool{}
	var rec func(t *Term) bool
	rec = func(t *Term) bool {
		if seen[t.id] {
			return false
		}
		seen[t.id] = true
		if t.Op == "forall" || t.Op == "exists" {
			return true
		}
		for _, a := range t.Args {
			if rec(a) {
				return true
			}
		}
		return false
	}
	for _, t := range ts {
		if rec(t) {
			return true
		}
	}
	return false
}

// ufAxioms: axioms about uninterpreted functions standing for trusted libraries,
// added when the functions occur in a script.
func ufAxioms(s *Script, foreign [][2]int64) []string {
	var out []string
	own := "(> (rg a) 0)"
	if len(foreign) > 0 {
		// merge overlapping / adjacent ranges
		sort.Slice(foreign, func(i, j int) bool { return foreign[i][0] < foreign[j][0] })
		var m [][2]int64
		for _, r := range foreign {
			if len(m) > 0 && r[0] <= m[len(m)-1][1] {
				if r[1] > m[len(m)-1][1] {
					m[len(m)-1][1] = r[1]
				}
				continue
			}
			m = append(m, r)
		}
		parts := []string{own}
		for _, r := range m {
			parts = append(parts, fmt.Sprintf("(not (and (> (rg a) %d) (<= (rg a) %d)))", r[0], r[1]))
		}
		own = "(and " + strings.Join(parts, " ") + ")"
	}
	// freshly allocated memory is zero: reads of the initial arrays at regions allocated
	// during the execution (region id > 0) give the zero value
	otherArrays := false
	for _, d := range s.decls {
		if strings.HasPrefix(d, "(declare-const mem_") {
			otherArrays = true // arrays introduced by bulk copies / havoc: reads may reach @0 arrays only through their axioms
		}
	}
	for _, d := range s.decls {
		if !otherArrays || !strings.HasPrefix(d, "(declare-const |mem_") || !strings.Contains(d, "@0| ") {
			continue
		}
		parts := strings.SplitN(strings.TrimSuffix(strings.TrimPrefix(d, "(declare-const "), ")"), " ", 2)
		name, srt := parts[0], Sort(parts[1])
		_, el := srt.ArrayParts()
		z := zeroOf(el)
		if z == nil {
			continue
		}
		out = append(out, fmt.Sprintf("(forall ((a Addr)) (! (=> %s (= (select %s a) %s)) :pattern ((select %s a))))", own, name, constSMTAny(z), name))
	}
	_, e := s.ufs["aes_enc"]
	_, d := s.ufs["aes_dec"]
	if e || d {
		if !e {
			s.ufs["aes_enc"] = "(declare-fun aes_enc ((_ BitVec 128) (_ BitVec 128)) (_ BitVec 128))"
		}
		if !d {
			s.ufs["aes_dec"] = "(declare-fun aes_dec ((_ BitVec 128) (_ BitVec 128)) (_ BitVec 128))"
		}
		if e && d {
			out = append(out,
				"(forall ((k (_ BitVec 128)) (x (_ BitVec 128))) (! (= (aes_dec k (aes_enc k x)) x) :pattern ((aes_enc k x))))",
				"(forall ((k (_ BitVec 128)) (x (_ BitVec 128))) (! (= (aes_enc k (aes_dec k x)) x) :pattern ((aes_dec k x))))")
		}
	}
	return out
}

func (o *Obligation) Script(specText string, predeclared map[string]bool) (string, bool, []string) {
	s := NewScript()
	var asserts []string
	assumes := relevantAssumes(o)
	for _, a := range assumes {
		asserts = append(asserts, s.Ref(a))
	}
	g, extra := prepareGoal(assumes, o.Goal)
	for _, x := range extra {
		asserts = append(asserts, s.Ref(x))
	}
	asserts = append(asserts, s.Ref(Not(g)))
	if !o.Approx {
		asserts = append(asserts, ufAxioms(s, append([][2]int64{}, o.Foreign...))...)
	}
	// values to query: scalar variables
	var names []string
	for n := range s.declSet {
		names = append(names, n)
	}
	var scal []string
	for _, d := range s.decls {
		// (declare-const name sort)
		parts := strings.SplitN(strings.TrimSuffix(strings.TrimPrefix(d, "(declare-const "), ")"), " ", 2)
		if len(parts) == 2 && !strings.HasPrefix(parts[1], "(Array") {
			scal = append(scal, parts[0])
		}
	}
	tail := "(check-sat)\n"
	if len(scal) > 0 {
		tail += "(get-value (" + strings.Join(scal, " ") + "))\n"
	}
	q := hasQuant(append(append([]*Term{}, assumes...), o.Goal))
	return s.Render("", specText, predeclared, asserts, tail), q, scal
}

// ---------- parallel discharge ----------

type Discharged struct {
	Obl *Obligation
	Res *SolveResult
}

// quickSolve: one solver, short timeout (cone attempts)
func quickSolve(script string, quantified bool, seconds int, seed int) *SolveResult {
	cfgs := solverConfigs(seconds, seed)
	cfg := cfgs[0]
	if quantified {
		cfg = cfgs[5]
	}
	sc := script
	if strings.HasPrefix(cfg.Name, "cvc5") {
		sc = "(set-logic ALL)\n" + script
	}
	st, out, ms := runSolver(cfg, sc, time.Duration(seconds+2)*time.Second)
	return &SolveResult{Status: st, Solver: cfg.Name + "+cone", Ms: ms, Output: out, Tried: []string{fmt.Sprintf("%s+cone:%s:%dms", cfg.Name, st, ms)}}
}

func coneCopies(os_ []*Obligation) ([]*Obligation, bool) {
	var out []*Obligation
	dropped := false
	for _, o := range os_ {
		o2 := *o
		o2.Cone = true
		if len(relevantAssumes(&o2)) < len(relevantAssumes(o)) {
			dropped = true
		}
		out = append(out, &o2)
	}
	return out, dropped
}

func batchScript(os_ []*Obligation) (string, bool) {
	s := NewScript()
	var insts []string
	var all []*Term
	var foreign [][2]int64 // union over the batch: a weaker (still sound) zero-memory axiom
	for _, o := range os_ {
		foreign = append(foreign, o.Foreign...)
		var parts []string
		ras := relevantAssumes(o)
		for _, a := range ras {
			parts = append(parts, s.Ref(a))
			all = append(all, a)
		}
		g, extra := prepareGoal(ras, o.Goal)
		for _, x := range extra {
			parts = append(parts, s.Ref(x))
		}
		parts = append(parts, s.Ref(Not(g)))
		all = append(all, o.Goal)
		insts = append(insts, "(and "+strings.Join(parts, " ")+")")
	}
	asserts := []string{"(or " + strings.Join(insts, " ") + " false)"}
	asserts = append(asserts, ufAxioms(s, foreign)...)
	return s.Render("", "", nil, asserts, "(check-sat)\n"), hasQuant(all)
}

func DischargeAll(obls []*Obligation, timeoutS, seed, workers int, dumpDir string) []*Discharged {
	out := make([]*Discharged, len(obls))
	// group by name
	groups := map[string][]int{}
	var names []string
	for i, o := range obls {
		if _, ok := groups[o.Name]; !ok {
			names = append(names, o.Name)
		}
		groups[o.Name] = append(groups[o.Name], i)
	}
	type job struct{ idx []int }
	var jobs []job
	for _, n := range names {
		idx := groups[n]
		q := false
		for _, i := range idx {
			if hasQuant(append(append([]*Term{}, relevantAssumes(obls[i])...), obls[i].Goal)) {
				q = true
				break
			}
		}
		chunk := 24
		if q {
			chunk = 1
		}
		for k := 0; k < len(idx); k += chunk {
			e := k + chunk
			if e > len(idx) {
				e = len(idx)
			}
			jobs = append(jobs, job{idx[k:e]})
		}
	}
	var wg sync.WaitGroup
	sem := make(chan struct{}, workers)
	single := func(i int) {
		o := obls[i]
		script, q, _ := o.Script("", nil)
		if dumpDir != "" {
			os.MkdirAll(dumpDir, 0o755)
			os.WriteFile(fmt.Sprintf("%s/%04d_%s.smt2", dumpDir, i, sanitize(o.Name)), []byte(script), 0o644)
		}
		if len(script) > 4<<20 {
			out[i] = &Discharged{o, &SolveResult{Status: "toolimit", Output: "VC larger than 4 MB"}}
			return
		}
		if cs, dropped := coneCopies([]*Obligation{o}); dropped {
			cscript, cq, _ := cs[0].Script("", nil)
			if r := quickSolve(cscript, cq, 3, seed); r.Status == "unsat" {
				out[i] = &Discharged{o, r}
				return
			}
		}
		out[i] = &Discharged{o, Solve(script, q, timeoutS, seed, false)}
	}
	deadline := time.Now().Add(time.Duration(envInt("GOV_SOLVE_SECONDS", 900)) * time.Second)
	var solveGroup func(idx []int)
	solveGroup = func(idx []int) {
		if time.Now().After(deadline) {
			for _, i := range idx {
				out[i] = &Discharged{obls[i], &SolveResult{Status: "timeout", Output: "overall solver budget of the check exhausted"}}
			}
			return
		}
		if len(idx) == 1 {
			single(idx[0])
			return
		}
		var os_ []*Obligation
		for _, i := range idx {
			os_ = append(os_, obls[i])
		}
		if cs, dropped := coneCopies(os_); dropped {
			cscript, cq := batchScript(cs)
			if len(cscript) <= 4<<20 {
				if r := quickSolve(cscript, cq, 3, seed); r.Status == "unsat" {
					share := r.Ms / int64(len(idx))
					for _, i := range idx {
						out[i] = &Discharged{obls[i], &SolveResult{Status: "unsat", Solver: r.Solver, Ms: share, Tried: r.Tried}}
					}
					return
				}
			}
		}
		script, q := batchScript(os_)
		if len(script) <= 4<<20 {
			// a batch is only a shortcut: give it a short budget and bisect; the tier's full budget
			// is for single obligations
			bt := timeoutS
			if bt > 15 {
				bt = 15
			}
			r := Solve(script, q, bt, seed, false)
			if r.Status == "unsat" {
				share := r.Ms / int64(len(idx))
				for _, i := range idx {
					out[i] = &Discharged{obls[i], &SolveResult{Status: "unsat", Solver: r.Solver, Ms: share, Tried: r.Tried}}
				}
				return
			}
		}
		// bisect to locate the failing instance(s)
		h := len(idx) / 2
		solveGroup(idx[:h])
		solveGroup(idx[h:])
	}
	for _, jb := range jobs {
		wg.Add(1)
		sem <- struct{}{}
		go func(jb job) {
			defer wg.Done()
			defer func() { <-sem }()
			solveGroup(jb.idx)
		}(jb)
	}
	wg.Wait()
	return out
}

// PruneSolver: optional feasibility checks during symbolic execution.
type PruneSolver struct {
	mu    sync.Mutex
	calls int
}

func (p *PruneSolver) Feasible(assumes []*Term) bool {
	p.mu.Lock()
	p.calls++
	p.mu.Unlock()
	s := NewScript()
	var asserts []string
	for _, a := range assumes {
		if hasQuant([]*Term{a}) {
			continue
		}
		asserts = append(asserts, s.Ref(a))
	}
	script := s.Render("", "", nil, asserts, "(check-sat)\n")
	cfgs := solverConfigs(1, 0)
	st, _, _ := runSolver(cfgs[0], script, 2*time.Second)
	if st == "unsat" {
		return false
	}
	if st == "sat" {
		return true
	}
	// undecided by z3 within a second: arithmetic with multiplications / divisions by constants is
	// often decided by cvc5's int-blasting
	if strings.Contains(script, "(bvmul ") || strings.Contains(script, "(bvurem ") || strings.Contains(script, "(bvudiv ") || strings.Contains(script, "(bvsrem ") || strings.Contains(script, "(bvsdiv ") {
		st, _, _ = runSolver(cfgs[4], "(set-logic ALL)\n"+script, 2*time.Second)
		if st == "unsat" {
			return false
		}
	}
	return true
}

// Status: "sat" / "unsat" / "unknown" for the quantifier-free part of a path condition (2 s, z3 5.1).
func (p *PruneSolver) Status(assumes []*Term) string {
	s := NewScript()
	var asserts []string
	for _, a := range assumes {
		if hasQuant([]*Term{a}) {
			continue
		}
		asserts = append(asserts, s.Ref(a))
	}
	script := s.Render("", "", nil, asserts, "(check-sat)\n")
	st, _, _ := runSolver(solverConfigs(2, 0)[0], script, 3*time.Second)
	if st == "sat" || st == "unsat" {
		return st
	}
	return "unknown"
}

func constSMTAny(t *Term) string {
	if t == NilAddr {
		return "(mkaddr 0 pnil)"
	}
	if t.Op == "fpconst" {
		return fpConstSMT(t)
	}
	return constSMT(t)
}
