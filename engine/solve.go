package main

import (
	"bytes"
	"context"
	"fmt"
	"os"
	"os/exec"
	"regexp"
	"strings"
	"sync"
	"time"
)

type SolverCfg struct {
	Name string
	Cmd  []string // reads script from stdin
}

func solverConfigs(timeoutS int, seed int) []SolverCfg {
	ms := fmt.Sprintf("%d", timeoutS*1000)
	return []SolverCfg{
		{"z3-5.1", []string{"z3-new", "-in", "-smt2", "-t:" + ms, fmt.Sprintf("smt.random_seed=%d", seed), fmt.Sprintf("sat.random_seed=%d", seed)}},
		{"cvc5-1.0", []string{"cvc5", "--lang=smt2", "--tlimit=" + ms, fmt.Sprintf("--seed=%d", seed), "--produce-models"}},
		{"cvc5-1.0-enum", []string{"cvc5", "--lang=smt2", "--tlimit=" + ms, fmt.Sprintf("--seed=%d", seed), "--produce-models", "--enum-inst"}},
		{"z3-4.8", []string{"z3", "-in", "-smt2", "-t:" + ms, fmt.Sprintf("smt.random_seed=%d", seed)}},
	}
}

type SolveResult struct {
	Status  string // unsat | sat | unknown | timeout | error
	Solver  string
	Ms      int64
	Output  string
	Model   map[string]string
	Tried   []string
}

func runSolver(cfg SolverCfg, script string, hardTimeout time.Duration) (status string, out string, ms int64) {
	ctx, cancel := context.WithTimeout(context.Background(), hardTimeout)
	defer cancel()
	cmd := exec.CommandContext(ctx, cfg.Cmd[0], cfg.Cmd[1:]...)
	cmd.Stdin = strings.NewReader(script)
	var ob bytes.Buffer
	cmd.Stdout = &ob
	cmd.Stderr = &ob
	t0 := time.Now()
	_ = cmd.Run()
	ms = time.Since(t0).Milliseconds()
	out = ob.String()
	first := strings.TrimSpace(strings.SplitN(out, "\n", 2)[0])
	switch first {
	case "unsat", "sat", "unknown":
		status = first
	default:
		if ctx.Err() != nil || strings.Contains(out, "timeout") || strings.Contains(out, "interrupted") {
			status = "timeout"
		} else {
			status = "error"
		}
	}
	if status == "unknown" && (strings.Contains(out, "timeout") || strings.Contains(out, "canceled")) {
		status = "timeout"
	}
	return
}

// Solve tries the portfolio in order; stops at the first sat/unsat.
func Solve(script string, quantified bool, timeoutS int, seed int, all bool) *SolveResult {
	cfgs := solverConfigs(timeoutS, seed)
	order := []int{0, 1, 3}
	if quantified {
		order = []int{1, 0, 2, 3}
	}
	res := &SolveResult{Status: "unknown"}
	var total int64
	for _, i := range order {
		cfg := cfgs[i]
		sc := script
		if strings.HasPrefix(cfg.Name, "cvc5") {
			sc = "(set-logic ALL)\n" + script
		}
		st, out, ms := runSolver(cfg, sc, time.Duration(timeoutS+5)*time.Second)
		total += ms
		res.Tried = append(res.Tried, fmt.Sprintf("%s:%s:%dms", cfg.Name, st, ms))
		if st == "error" {
			res.Output += "[" + cfg.Name + "] " + firstLines(out, 5) + "\n"
			continue
		}
		if st == "sat" || st == "unsat" {
			res.Status, res.Solver, res.Ms, res.Output = st, cfg.Name, total, out
			if st == "sat" {
				res.Model = parseModel(out)
			}
			return res
		}
		if res.Status == "unknown" {
			res.Status = st
		}
		res.Output += "[" + cfg.Name + "] " + firstLines(out, 3) + "\n"
	}
	res.Ms = total
	return res
}

func firstLines(s string, n int) string {
	ls := strings.Split(strings.TrimSpace(s), "\n")
	if len(ls) > n {
		ls = ls[:n]
	}
	return strings.Join(ls, " | ")
}

var getValueRe = regexp.MustCompile(`\(\s*(\|[^|]*\||[^\s()]+)\s+(#x[0-9a-fA-F]+|#b[01]+|true|false|\(- \d+\)|\d+)\s*\)`)

func parseModel(out string) map[string]string {
	m := map[string]string{}
	for _, mm := range getValueRe.FindAllStringSubmatch(out, -1) {
		m[strings.Trim(mm[1], "|")] = mm[2]
	}
	return m
}

// ---------- obligation to script ----------

func hasQuant(ts []*Term) bool {
	seen := map[int]bool{}
	var rec func(t *Term) bool
	rec = func(t *Term) bool {
		if seen[t.id] {
			return false
		}
		seen[t.id] = true
		if t.Op == "forall" || t.Op == "exists" {
			return true
		}
		for _, a := range t.Args {
			if rec(a) {
				return true
			}
		}
		return false
	}
	for _, t := range ts {
		if rec(t) {
			return true
		}
	}
	return false
}

func (o *Obligation) Script(specText string, predeclared map[string]bool) (string, bool, []string) {
	s := NewScript()
	var asserts []string
	for _, a := range o.Assumes {
		asserts = append(asserts, s.Ref(a))
	}
	asserts = append(asserts, s.Ref(Not(o.Goal)))
	// values to query: scalar variables
	var names []string
	for n := range s.declSet {
		names = append(names, n)
	}
	var scal []string
	for _, d := range s.decls {
		// (declare-const name sort)
		parts := strings.SplitN(strings.TrimSuffix(strings.TrimPrefix(d, "(declare-const "), ")"), " ", 2)
		if len(parts) == 2 && !strings.HasPrefix(parts[1], "(Array") {
			scal = append(scal, parts[0])
		}
	}
	tail := "(check-sat)\n"
	if len(scal) > 0 {
		tail += "(get-value (" + strings.Join(scal, " ") + "))\n"
	}
	q := hasQuant(append(append([]*Term{}, o.Assumes...), o.Goal))
	return s.Render("", specText, predeclared, asserts, tail), q, scal
}

// ---------- parallel discharge ----------

type Discharged struct {
	Obl *Obligation
	Res *SolveResult
}

func DischargeAll(obls []*Obligation, timeoutS, seed, workers int, dumpDir string) []*Discharged {
	out := make([]*Discharged, len(obls))
	var wg sync.WaitGroup
	sem := make(chan struct{}, workers)
	for i, o := range obls {
		wg.Add(1)
		sem <- struct{}{}
		go func(i int, o *Obligation) {
			defer wg.Done()
			defer func() { <-sem }()
			script, q, _ := o.Script("", nil)
			if dumpDir != "" {
				os.MkdirAll(dumpDir, 0o755)
				os.WriteFile(fmt.Sprintf("%s/%04d_%s.smt2", dumpDir, i, sanitize(o.Label)), []byte(script), 0o644)
			}
			if len(script) > 4<<20 {
				out[i] = &Discharged{o, &SolveResult{Status: "toolimit", Output: "VC larger than 4 MB"}}
				return
			}
			out[i] = &Discharged{o, Solve(script, q, timeoutS, seed, false)}
		}(i, o)
	}
	wg.Wait()
	return out
}

// PruneSolver: optional feasibility checks during symbolic execution.
type PruneSolver struct {
	mu    sync.Mutex
	calls int
}

func (p *PruneSolver) Feasible(assumes []*Term) bool {
	p.mu.Lock()
	p.calls++
	p.mu.Unlock()
	s := NewScript()
	var asserts []string
	for _, a := range assumes {
		if hasQuant([]*Term{a}) {
			continue
		}
		asserts = append(asserts, s.Ref(a))
	}
	script := s.Render("", "", nil, asserts, "(check-sat)\n")
	st, _, _ := runSolver(solverConfigs(2, 0)[0], script, 4*time.Second)
	return st != "unsat"
}
