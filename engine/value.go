package main

// Symbolic values, typed by go/types, and the memory model.

import (
	"fmt"
	"go/types"
	"sort"
	"strings"

	"golang.org/x/tools/go/ssa"
)

// Value is one of: *Term (scalars: ints, bools, floats, strings(bv64 ids), pointers/maps/chans (Addr)),
// *SliceV, *IfaceV, *TupleV (structs, arrays, tuples), *FuncV.
type Value interface{}

type SliceV struct{ Base, Off, Len, Cap *Term } // element i at ElemAddr(Base, Off+i)
type IfaceV struct{ Tag, Data *Term }           // Tag BV32 (0 = nil interface); Data Addr
type TupleV struct{ Elems []Value }
type FuncV struct {
	Fn       interface{} // *ssa.Function (kept untyped here)
	Bindings []Value
	Sym      *Term // symbolic function id (BV64) when unknown
}

var NilSlice = &SliceV{Base: NilAddr, Off: BVc(0, 64), Len: BVc(0, 64), Cap: BVc(0, 64)}
var NilIface = &IfaceV{Tag: BVc(0, 32), Data: NilAddr}

// ---- type classification ----

type Kind int

const (
	KScalar Kind = iota // *Term with sort
	KSlice
	KIface
	KStruct
	KArray
	KTuple
	KFunc
)

func kindOf(t types.Type) Kind {
	switch u := t.Underlying().(type) {
	case *types.Basic, *types.Pointer, *types.Map, *types.Chan:
		_ = u
		return KScalar
	case *types.Slice:
		return KSlice
	case *types.Interface:
		return KIface
	case *types.Struct:
		return KStruct
	case *types.Array:
		return KArray
	case *types.Tuple:
		return KTuple
	case *types.Signature:
		return KFunc
	}
	panic(fmt.Sprintf("kindOf: unsupported type %s", t))
}

var sizes = types.SizesFor("gc", "amd64")

// scalarSort: the SMT sort of a scalar Go type
func scalarSort(t types.Type) Sort {
	switch u := t.Underlying().(type) {
	case *types.Basic:
		switch {
		case u.Info()&types.IsBoolean != 0:
			return SBool
		case u.Info()&types.IsInteger != 0:
			if u.Kind() == types.UntypedInt || u.Kind() == types.UntypedRune {
				return BV(64)
			}
			return BV(int(sizes.Sizeof(u)) * 8)
		case u.Kind() == types.Float64 || u.Kind() == types.UntypedFloat:
			return SF64
		case u.Kind() == types.Float32:
			return SF32
		case u.Info()&types.IsString != 0:
			return BV(64)
		case u.Kind() == types.UnsafePointer:
			return SAddr
		case u.Kind() == types.UntypedNil:
			return SAddr
		}
	case *types.Pointer, *types.Map, *types.Chan:
		return SAddr
	}
	panic(fmt.Sprintf("scalarSort: unsupported type %s", t))
}

func isSigned(t types.Type) bool {
	if b, ok := t.Underlying().(*types.Basic); ok {
		return b.Info()&types.IsInteger != 0 && b.Info()&types.IsUnsigned == 0
	}
	return false
}
func isInteger(t types.Type) bool {
	if b, ok := t.Underlying().(*types.Basic); ok {
		return b.Info()&types.IsInteger != 0
	}
	return false
}
func isString(t types.Type) bool {
	if b, ok := t.Underlying().(*types.Basic); ok {
		return b.Info()&types.IsString != 0
	}
	return false
}
func isFloat(t types.Type) bool {
	if b, ok := t.Underlying().(*types.Basic); ok {
		return b.Info()&types.IsFloat != 0
	}
	return false
}

// ---- type tags for interfaces ----

type TypeTags struct {
	byStr map[string]int
	types []types.Type
}

func NewTypeTags() *TypeTags { return &TypeTags{byStr: map[string]int{}} }

// Tag returns a stable (per name) 32-bit tag for a concrete type.
func (tt *TypeTags) Tag(t types.Type) *Term {
	s := types.TypeString(t, nil)
	if n, ok := tt.byStr[s]; ok {
		return BVc(int64(n), 32)
	}
	// FNV-1a 31 bit hash of the type string, non-zero; collisions resolved by probing
	h := uint32(2166136261)
	for i := 0; i < len(s); i++ {
		h ^= uint32(s[i])
		h *= 16777619
	}
	n := int(h&0x7fffffff) | 1
	for {
		clash := false
		for _, v := range tt.byStr {
			if v == n {
				clash = true
			}
		}
		if !clash {
			break
		}
		n += 2
	}
	tt.byStr[s] = n
	tt.types = append(tt.types, t)
	return BVc(int64(n), 32)
}

func (tt *TypeTags) Known() []types.Type {
	out := append([]types.Type{}, tt.types...)
	sort.Slice(out, func(i, j int) bool { return out[i].String() < out[j].String() })
	return out
}

// ---- memory ----

// Mem: one SMT array per scalar sort, indexed by Addr.
type Mem struct {
	arrs map[Sort]*Term
}

func NewMem(prefix string) *Mem {
	return &Mem{arrs: map[Sort]*Term{}}
}

func (m *Mem) Clone() *Mem {
	n := &Mem{arrs: map[Sort]*Term{}}
	for k, v := range m.arrs {
		n.arrs[k] = v
	}
	return n
}

var memNames = map[Sort]string{}

func memBaseName(s Sort) string {
	r := strings.NewReplacer("(", "", ")", "", " ", "_")
	return "mem_" + r.Replace(string(s))
}

func (m *Mem) arr(s Sort, gen string) *Term {
	if a, ok := m.arrs[s]; ok {
		return a
	}
	a := Var(memBaseName(s)+"@"+gen, ArraySort(SAddr, s))
	m.arrs[s] = a
	return a
}

// State of one symbolic execution path.
type State struct {
	mem     *Mem
	memGen  string // generation name for lazily created initial arrays
	assumes []*Term
	nextRg  *int64 // shared per-path counter of concrete region ids (pointer so clones diverge explicitly)
	// ghost: keys stored in maps whose region is concrete (for ground table reasoning)
	mapKeys map[int64][]*Term
	// initial memory (for old())
	init            *Mem
	subst           map[*Term]*Term
	frameCheck      func(ex *Exec, st *State, in ssa.Instruction, a *Term)
	frameCheckRange func(ex *Exec, st *State, in ssa.Instruction, dst *SliceV, n *Term)
	wantPrune       bool
	callLog         map[string][]TV // results of calls made on this path, by short callee name
	opaqueMaps      map[int64]bool  // maps whose key set is not completely known
	hashSeq         map[int64][]Seg // ghost message of hash objects (by region id)
	regionSeq       map[int64][]Seg // content of locally built byte regions as segments
	// region id ranges (lo, hi] whose memory was NOT allocated (zeroed) by this execution: results
	// allocated by callees applied by contract, allocations of earlier loop iterations. Their
	// initial content is unknown, so the "fresh memory reads as zero" axiom excludes them.
	foreign   [][2]int64
	regionLen map[int64]*Term // length of the tracked content of regionSeq regions
	lenAlias  map[*Term]*Term // names introduced for make() lengths -> the length expression
	// ghost for the assumed stdlib contract  strconv.ParseFloat(string(json.Marshal(x)), 64) == x
	// (finite float64 x): byte regions / strings known to be the JSON text of a float value
	textFloat map[int64]*Term
	strFloat  map[*Term]*Term
	// ghost lock state: region of a package-level mutex -> 0 free, 1 read-locked, 2 write-locked
	locks map[int64]int8
	// access hook for lock-protected globals (set when the package declares `protects`)
	accessHook func(st *State, a *Term, write bool)
	havocUB    int64 // while a callee's frame is havocked: upper bound for the regions of unknown pointers
}

func (st *State) Clone() *State {
	n := *st
	n.mem = st.mem.Clone()
	n.assumes = append([]*Term{}, st.assumes...)
	n.foreign = append([][2]int64{}, st.foreign...)
	if st.locks != nil {
		n.locks = make(map[int64]int8, len(st.locks))
		for k, v := range st.locks {
			n.locks[k] = v
		}
	}
	nr := *st.nextRg
	n.nextRg = &nr
	n.mapKeys = map[int64][]*Term{}
	for k, v := range st.mapKeys {
		n.mapKeys[k] = append([]*Term{}, v...)
	}
	if st.callLog != nil {
		n.callLog = make(map[string][]TV, len(st.callLog))
		for k, v := range st.callLog {
			n.callLog[k] = append([]TV{}, v...)
		}
	}
	return &n
}

func (st *State) Assume(t *Term) {
	if t.IsTrue() {
		return
	}
	st.assumes = append(st.assumes, t)
}

func (st *State) FreshRegion() *Term {
	*st.nextRg++
	return MkAddr(IntConst(*st.nextRg), PNil)
}

func (st *State) loadScalar(s Sort, a *Term) *Term {
	if st.accessHook != nil {
		st.accessHook(st, a, false)
	}
	if s == BV(8) && len(st.regionSeq) > 0 {
		if v := st.loadFromSegs(a); v != nil {
			return v
		}
	}
	arr := st.mem.arr(s, st.memGen)
	v := Select(arr, a)
	if s == SAddr {
		st.noteLoadedAddr(v)
	}
	return v
}

// Pointers read from memory that existed before the current function was
// entered cannot point into regions allocated later: assume rg(v) <= 0 for
// loads that resolve to an initial array.
func (st *State) noteLoadedAddr(v *Term) {
	if v.Op == "select" && v.Args[0].Op == "var" && !v.bound {
		// ... unless the address read lies in memory a callee allocated (result regions, objects a callee
		// stored into its frame): that memory is described by the callee's postcondition only, and its
		// pointers may refer to anything that exists now
		ar := Rg(v.Args[1])
		if ar.IsConst() && ar.Val.Sign() <= 0 {
			st.Assume(IntCmp("<=", Rg(v), IntConst(0)))
			return
		}
		st.Assume(Implies(IntCmp("<=", ar, IntConst(0)), IntCmp("<=", Rg(v), IntConst(0))))
		st.Assume(IntCmp("<=", Rg(v), IntConst(*st.nextRg)))
	}
}

func (st *State) storeScalar(s Sort, a, v *Term) {
	if st.accessHook != nil {
		st.accessHook(st, a, true)
	}
	if s == BV(8) && len(st.regionSeq) > 0 {
		if r := Rg(a); r.IsConst() {
			if _, tracked := st.regionSeq[r.Val.Int64()]; tracked {
				st.setRegionSeq(r.Val.Int64(), nil)
				st.setRegionLen(r.Val.Int64(), nil)
			}
		} else {
			if traceOn {
				fmt.Printf("SEGLOST store to symbolic region %s\n", a.SMT())
			}
			st.regionSeq = nil
			st.regionLen = nil
		}
	}
	arr := st.mem.arr(s, st.memGen)
	st.mem.arrs[s] = Store(arr, a, v)
}

// Load a value of Go type t from address a.
func (st *State) Load(t types.Type, a *Term) Value {
	switch kindOf(t) {
	case KScalar:
		return st.loadScalar(scalarSort(t), a)
	case KSlice:
		s := &SliceV{
			Base: st.loadScalar(SAddr, FldAddr(a, 0)),
			Off:  st.loadScalar(BV(64), FldAddr(a, 1)),
			Len:  st.loadScalar(BV(64), FldAddr(a, 2)),
			Cap:  st.loadScalar(BV(64), FldAddr(a, 3)),
		}
		// type invariant of every slice value stored in memory
		if !(s.Len.IsConst() && s.Cap.IsConst() && s.Off.IsConst()) && !s.Base.bound && !s.Off.bound && !s.Len.bound && !s.Cap.bound {
			st.Assume(validSlice(s))
		}
		return s
	case KIface:
		return &IfaceV{Tag: st.loadScalar(BV(32), FldAddr(a, 0)), Data: st.loadScalar(SAddr, FldAddr(a, 1))}
	case KStruct:
		s := t.Underlying().(*types.Struct)
		tv := &TupleV{}
		for i := 0; i < s.NumFields(); i++ {
			tv.Elems = append(tv.Elems, st.Load(s.Field(i).Type(), FldAddr(a, i)))
		}
		return tv
	case KArray:
		ar := t.Underlying().(*types.Array)
		if ar.Len() > 512 {
			panic(fmt.Sprintf("array too large: %s", t))
		}
		tv := &TupleV{}
		for i := int64(0); i < ar.Len(); i++ {
			tv.Elems = append(tv.Elems, st.Load(ar.Elem(), ElemAddr(a, BVc(i, 64))))
		}
		return tv
	case KFunc:
		return &FuncV{Sym: st.loadScalar(BV(64), a)}
	}
	panic("Load: unsupported " + t.String())
}

func (st *State) StoreVal(t types.Type, a *Term, v Value) {
	switch kindOf(t) {
	case KScalar:
		st.storeScalar(scalarSort(t), a, v.(*Term))
	case KSlice:
		s := v.(*SliceV)
		st.storeScalar(SAddr, FldAddr(a, 0), s.Base)
		st.storeScalar(BV(64), FldAddr(a, 1), s.Off)
		st.storeScalar(BV(64), FldAddr(a, 2), s.Len)
		st.storeScalar(BV(64), FldAddr(a, 3), s.Cap)
	case KIface:
		s := v.(*IfaceV)
		st.storeScalar(BV(32), FldAddr(a, 0), s.Tag)
		st.storeScalar(SAddr, FldAddr(a, 1), s.Data)
	case KStruct:
		s := t.Underlying().(*types.Struct)
		tv := v.(*TupleV)
		for i := 0; i < s.NumFields(); i++ {
			st.StoreVal(s.Field(i).Type(), FldAddr(a, i), tv.Elems[i])
		}
	case KArray:
		ar := t.Underlying().(*types.Array)
		tv := v.(*TupleV)
		for i := int64(0); i < ar.Len(); i++ {
			st.StoreVal(ar.Elem(), ElemAddr(a, BVc(i, 64)), tv.Elems[i])
		}
	case KFunc:
		f := v.(*FuncV)
		if f.Sym == nil {
			f.Sym = FreshVar("fn", BV(64))
		}
		st.storeScalar(BV(64), a, f.Sym)
	default:
		panic("Store: unsupported " + t.String())
	}
}

// Zero value of a Go type.
func ZeroValue(t types.Type) Value {
	switch kindOf(t) {
	case KScalar:
		s := scalarSort(t)
		switch {
		case s == SBool:
			return False
		case s.IsBV():
			return BVc(0, s.Width())
		case s == SAddr:
			return NilAddr
		case s == SF64:
			return FPConstBits(0, 64)
		case s == SF32:
			return FPConstBits(0, 32)
		}
	case KSlice:
		return NilSlice
	case KIface:
		return NilIface
	case KStruct:
		s := t.Underlying().(*types.Struct)
		tv := &TupleV{}
		for i := 0; i < s.NumFields(); i++ {
			tv.Elems = append(tv.Elems, ZeroValue(s.Field(i).Type()))
		}
		return tv
	case KArray:
		ar := t.Underlying().(*types.Array)
		tv := &TupleV{}
		for i := int64(0); i < ar.Len(); i++ {
			tv.Elems = append(tv.Elems, ZeroValue(ar.Elem()))
		}
		return tv
	case KFunc:
		return &FuncV{Sym: BVc(0, 64)}
	}
	panic("ZeroValue: unsupported " + t.String())
}

// SymValue creates an unconstrained symbolic value of type t; type-invariant
// assumptions (slice validity, region bounds) are added to st.
// ub is the upper bound assumed for region ids of pointers inside the value.
func (st *State) SymValue(t types.Type, name string, ub int64) Value {
	switch kindOf(t) {
	case KScalar:
		s := scalarSort(t)
		if s == SAddr {
			r := FreshVar(name+".rg", SInt)
			SetRegionUB(r, ub)
			st.Assume(IntCmp("<=", r, IntConst(ub)))
			return MkAddr(r, PNil)
		}
		return FreshVar(name, s)
	case KSlice:
		r := FreshVar(name+".rg", SInt)
		SetRegionUB(r, ub)
		st.Assume(IntCmp("<=", r, IntConst(ub)))
		s := &SliceV{Base: MkAddr(r, PNil), Off: FreshVar(name+".off", BV(64)), Len: FreshVar(name+".len", BV(64)), Cap: FreshVar(name+".cap", BV(64))}
		st.Assume(validSlice(s))
		return s
	case KIface:
		d := FreshVar(name+".data", SAddr)
		st.Assume(IntCmp("<=", Rg(d), IntConst(ub)))
		return &IfaceV{Tag: FreshVar(name+".tag", BV(32)), Data: d}
	case KStruct:
		s := t.Underlying().(*types.Struct)
		tv := &TupleV{}
		for i := 0; i < s.NumFields(); i++ {
			tv.Elems = append(tv.Elems, st.SymValue(s.Field(i).Type(), name+"."+s.Field(i).Name(), ub))
		}
		return tv
	case KArray:
		ar := t.Underlying().(*types.Array)
		tv := &TupleV{}
		for i := int64(0); i < ar.Len(); i++ {
			tv.Elems = append(tv.Elems, st.SymValue(ar.Elem(), fmt.Sprintf("%s[%d]", name, i), ub))
		}
		return tv
	case KTuple:
		tu := t.(*types.Tuple)
		tv := &TupleV{}
		for i := 0; i < tu.Len(); i++ {
			tv.Elems = append(tv.Elems, st.SymValue(tu.At(i).Type(), fmt.Sprintf("%s#%d", name, i), ub))
		}
		return tv
	case KFunc:
		return &FuncV{Sym: FreshVar(name, BV(64))}
	}
	panic("SymValue: unsupported " + t.String())
}

var maxObj = BVConst(mask(62), 64)   // 2^62-1: no allocation is larger
var maxInput = BVConst(mask(61), 64) // 2^61-1: slices that exist at function entry

// validSlice: 0 <= len <= cap, off+cap does not overflow (all < 2^62), nil base => empty
func validSlice(s *SliceV) *Term {
	return And(
		BVCmp("bvule", s.Len, s.Cap),
		BVCmp("bvule", s.Cap, maxInput),
		BVCmp("bvule", s.Off, maxInput),
		Implies(Eq(Rg(s.Base), IntConst(0)), And(Eq(s.Cap, BVc(0, 64)), Eq(s.Off, BVc(0, 64)))),
	)
}

func (s *SliceV) ElemAddr(i *Term) *Term { return ElemAddr(s.Base, BVBin("bvadd", s.Off, i)) }

// ValueEq: structural equality of two values of type t as a Term.
func ValueEq(t types.Type, a, b Value) *Term {
	switch kindOf(t) {
	case KScalar:
		x, y := a.(*Term), b.(*Term)
		if x.Sort.IsFP() {
			return FPEq(x, y)
		}
		return Eq(x, y)
	case KSlice:
		x, y := a.(*SliceV), b.(*SliceV)
		return And(Eq(x.Base, y.Base), Eq(x.Off, y.Off), Eq(x.Len, y.Len), Eq(x.Cap, y.Cap))
	case KIface:
		x, y := a.(*IfaceV), b.(*IfaceV)
		return And(Eq(x.Tag, y.Tag), Eq(x.Data, y.Data))
	case KStruct:
		s := t.Underlying().(*types.Struct)
		x, y := a.(*TupleV), b.(*TupleV)
		var cs []*Term
		for i := 0; i < s.NumFields(); i++ {
			cs = append(cs, ValueEq(s.Field(i).Type(), x.Elems[i], y.Elems[i]))
		}
		return And(cs...)
	case KArray:
		ar := t.Underlying().(*types.Array)
		x, y := a.(*TupleV), b.(*TupleV)
		var cs []*Term
		for i := int64(0); i < ar.Len(); i++ {
			cs = append(cs, ValueEq(ar.Elem(), x.Elems[i], y.Elems[i]))
		}
		return And(cs...)
	}
	if kindOf(t) == KFunc {
		x, y := a.(*FuncV), b.(*FuncV)
		if x.Sym != nil && y.Sym != nil {
			return Eq(x.Sym, y.Sym)
		}
	}
	panic("ValueEq: unsupported " + t.String())
}

// IteValue: if c then a else b, component-wise.
func IteValue(c *Term, a, b Value) Value {
	switch x := a.(type) {
	case *Term:
		return Ite(c, x, b.(*Term))
	case *SliceV:
		y := b.(*SliceV)
		return &SliceV{Ite(c, x.Base, y.Base), Ite(c, x.Off, y.Off), Ite(c, x.Len, y.Len), Ite(c, x.Cap, y.Cap)}
	case *IfaceV:
		y := b.(*IfaceV)
		return &IfaceV{Ite(c, x.Tag, y.Tag), Ite(c, x.Data, y.Data)}
	case *TupleV:
		y := b.(*TupleV)
		r := &TupleV{}
		for i := range x.Elems {
			r.Elems = append(r.Elems, IteValue(c, x.Elems[i], y.Elems[i]))
		}
		return r
	case *FuncV:
		y := b.(*FuncV)
		if x.Fn != nil && x.Fn == y.Fn {
			return x
		}
		if x.Sym != nil && y.Sym != nil {
			return &FuncV{Sym: Ite(c, x.Sym, y.Sym)}
		}
	}
	panic(fmt.Sprintf("IteValue: unsupported %T", a))
}

// scalar leaves of a type, as (path-builder) used for havoc of p.*
func forEachLeaf(t types.Type, a *Term, f func(s Sort, a *Term)) {
	switch kindOf(t) {
	case KScalar:
		f(scalarSort(t), a)
	case KSlice:
		f(SAddr, FldAddr(a, 0))
		f(BV(64), FldAddr(a, 1))
		f(BV(64), FldAddr(a, 2))
		f(BV(64), FldAddr(a, 3))
	case KIface:
		f(BV(32), FldAddr(a, 0))
		f(SAddr, FldAddr(a, 1))
	case KStruct:
		s := t.Underlying().(*types.Struct)
		for i := 0; i < s.NumFields(); i++ {
			forEachLeaf(s.Field(i).Type(), FldAddr(a, i), f)
		}
	case KArray:
		ar := t.Underlying().(*types.Array)
		for i := int64(0); i < ar.Len(); i++ {
			forEachLeaf(ar.Elem(), ElemAddr(a, BVc(i, 64)), f)
		}
	case KFunc:
		f(BV(64), a)
	}
}

// loadFromSegs: a byte read at a constant index of a locally assembled buffer whose content is
// tracked as segments: if the index falls on a literal byte reached through constant positions,
// the byte is known without going through the (quantified) copy axioms.
func (st *State) loadFromSegs(a *Term) *Term {
	if a.Op != "mkaddr" {
		return nil
	}
	rg := Subst(a.Args[0], st.substMap())
	if !rg.IsConst() || !rg.Val.IsInt64() {
		return nil
	}
	segs, ok := st.regionSeq[rg.Val.Int64()]
	if !ok {
		return nil
	}
	pa := a.Args[1]
	if pa.Op != "elem" || pa.Args[0] != PNil {
		return nil
	}
	idx := Subst(pa.Args[1], st.substMap())
	if !idx.IsConst() {
		return nil
	}
	want := idx.Val.Uint64()
	pos := uint64(0)
	for _, sg := range segs {
		switch {
		case sg.Lit != nil:
			if pos == want {
				return sg.Lit
			}
			pos++
		case sg.Zero != nil:
			n := Subst(sg.Zero, st.substMap())
			if !n.IsConst() {
				return nil
			}
			if want < pos+n.Val.Uint64() {
				return BVc(0, 8)
			}
			pos += n.Val.Uint64()
		default:
			n := Subst(sg.Len, st.substMap())
			if !n.IsConst() {
				return nil
			}
			if want < pos+n.Val.Uint64() {
				return Select(sg.Arr, ElemAddr(sg.Base, BVBin("bvadd", sg.Off, BVc(int64(want-pos), 64))))
			}
			pos += n.Val.Uint64()
		}
	}
	return nil
}
