package main

import (
	"fmt"
	"go/types"

	"golang.org/x/tools/go/ssa"
)

type intrinsicFn func(ex *Exec, fr *Frame, in ssa.Instruction, fn *ssa.Function, args []Value, st *State, cont callCont)
type invokeIntrinsicFn func(ex *Exec, fr *Frame, in ssa.Instruction, iv *IfaceV, args []Value, st *State, cont callCont)

var intrinsics = map[string]intrinsicFn{}
var invokeIntrinsics = map[string]invokeIntrinsicFn{}

var errorType = types.Universe.Lookup("error").Type()

// a fresh non-nil error value
func (ex *Exec) newError(st *State) *IfaceV {
	return &IfaceV{Tag: ex.eng.errTag(), Data: st.FreshRegion()}
}

var sortCounter int

func init() {
	newErr := func(ex *Exec, fr *Frame, in ssa.Instruction, fn *ssa.Function, args []Value, st *State, cont callCont) {
		cont(st, fr, ex.newError(st))
	}
	for _, n := range []string{"errors.New", "fmt.Errorf", "github.com/pkg/errors.New", "github.com/pkg/errors.Errorf"} {
		intrinsics[n] = newErr
	}
	wrap := func(ex *Exec, fr *Frame, in ssa.Instruction, fn *ssa.Function, args []Value, st *State, cont callCont) {
		e := args[0].(*IfaceV)
		isNil := Eq(e.Tag, BVc(0, 32))
		ne := ex.newError(st)
		cont(st, fr, IteValue(isNil, NilIface, ne))
	}
	intrinsics["github.com/pkg/errors.Wrap"] = wrap
	intrinsics["github.com/pkg/errors.Wrapf"] = wrap
	intrinsics["github.com/pkg/errors.WithStack"] = wrap
	intrinsics["github.com/pkg/errors.Cause"] = func(ex *Exec, fr *Frame, in ssa.Instruction, fn *ssa.Function, args []Value, st *State, cont callCont) {
		// Cause(nil) == nil; Cause(non-nil) is some non-nil error
		e := args[0].(*IfaceV)
		isNil := Eq(e.Tag, BVc(0, 32))
		r := st.SymValue(errorType, "cause", *st.nextRg).(*IfaceV)
		st.Assume(Implies(Not(isNil), Neq(r.Tag, BVc(0, 32))))
		cont(st, fr, IteValue(isNil, NilIface, r))
	}
	strRes := func(ex *Exec, fr *Frame, in ssa.Instruction, fn *ssa.Function, args []Value, st *State, cont callCont) {
		cont(st, fr, FreshVar("str", BV(64)))
	}
	intrinsics["fmt.Sprintf"] = strRes
	intrinsics["fmt.Sprint"] = strRes
	intrinsics["strconv.Itoa"] = strRes
	invokeIntrinsics["(error).Error"] = func(ex *Exec, fr *Frame, in ssa.Instruction, iv *IfaceV, args []Value, st *State, cont callCont) {
		cont(st, fr, FreshVar("str", BV(64)))
	}
	noop := func(ex *Exec, fr *Frame, in ssa.Instruction, fn *ssa.Function, args []Value, st *State, cont callCont) {
		cont(st, fr, nil)
	}
	for _, n := range []string{"fmt.Println", "fmt.Printf"} {
		intrinsics[n] = noop
	}
	// mutexes: ghost lock state for package-level mutexes (lock discipline of `protects` globals);
	// mutexes that are not package-level variables are not tracked. Blocking is not modelled.
	lockOp := func(op string) intrinsicFn {
		return func(ex *Exec, fr *Frame, in ssa.Instruction, fn *ssa.Function, args []Value, st *State, cont callCont) {
			where := "deferred call in " + fr.fn.String()
			if in != nil {
				where = ex.pos(in)
			}
			if a, ok := args[0].(*Term); ok {
				if rg := Subst(Rg(a), st.substMap()); rg.IsConst() && rg.Val.IsInt64() && rg.Val.Sign() < 0 {
					id := rg.Val.Int64()
					if st.locks == nil {
						st.locks = map[int64]int8{}
					}
					cur := st.locks[id]
					switch op {
					case "Lock":
						ex.addObl(st, "lock", "lock:acquire-free", BoolConst(cur == 0), where)
						st.locks[id] = 2
					case "RLock":
						ex.addObl(st, "lock", "lock:acquire-free", BoolConst(cur != 2), where)
						st.locks[id] = 1
					case "Unlock":
						ex.addObl(st, "lock", "lock:release-held", BoolConst(cur == 2), where)
						st.locks[id] = 0
					case "RUnlock":
						ex.addObl(st, "lock", "lock:release-held", BoolConst(cur == 1), where)
						st.locks[id] = 0
					}
				}
			}
			cont(st, fr, nil)
		}
	}
	intrinsics["(*sync.RWMutex).Lock"] = lockOp("Lock")
	intrinsics["(*sync.RWMutex).Unlock"] = lockOp("Unlock")
	intrinsics["(*sync.RWMutex).RLock"] = lockOp("RLock")
	intrinsics["(*sync.RWMutex).RUnlock"] = lockOp("RUnlock")
	intrinsics["(*sync.Mutex).Lock"] = lockOp("Lock")
	intrinsics["(*sync.Mutex).Unlock"] = lockOp("Unlock")
	intrinsics["bytes.Equal"] = func(ex *Exec, fr *Frame, in ssa.Instruction, fn *ssa.Function, args []Value, st *State, cont callCont) {
		a, b := args[0].(*SliceV), args[1].(*SliceV)
		if g, ok := eqBytesSegs(st, a, b); ok {
			cont(st, fr, And(Eq(a.Len, b.Len), g))
			return
		}
		cont(st, fr, And(Eq(a.Len, b.Len), ex.contentEq(st, a, b, a.Len)))
	}
	// encoding/json.Marshal of a float64 and strconv.ParseFloat: ASSUMED stdlib contract (reported):
	// parsing the JSON text of a finite float64 gives back exactly that value and no error
	intrinsics["encoding/json.Marshal"] = func(ex *Exec, fr *Frame, in ssa.Instruction, fn *ssa.Function, args []Value, st *State, cont callCont) {
		iv, ok := args[0].(*IfaceV)
		f64 := types.Typ[types.Float64]
		if !ok || Subst(iv.Tag, st.substMap()) != ex.eng.tags.Tag(f64) {
			panic(abortPath{"encoding/json.Marshal of a value that is not a float64 (reflection is not modelled)"})
		}
		x := ex.unbox(f64, iv, st).(*Term)
		base := st.FreshRegion()
		id := *st.nextRg
		n := FreshVar("jsonlen", BV(64))
		st.Assume(And(BVCmp("bvule", BVc(1, 64), n), BVCmp("bvule", n, BVc(32, 64))))
		m := make(map[int64]*Term, len(st.textFloat)+1)
		for k, v := range st.textFloat {
			m[k] = v
		}
		m[id] = x
		st.textFloat = m
		ex.intrUsed["assume:strconv.ParseFloat(string(json.Marshal(x))) == x for float64 x"] = true
		cont(st, fr, &TupleV{Elems: []Value{&SliceV{Base: base, Off: BVc(0, 64), Len: n, Cap: n}, NilIface}})
	}
	intrinsics["strconv.ParseFloat"] = func(ex *Exec, fr *Frame, in ssa.Instruction, fn *ssa.Function, args []Value, st *State, cont callCont) {
		s := args[0].(*Term)
		if x, ok := st.strFloat[s]; ok {
			cont(st, fr, &TupleV{Elems: []Value{x, NilIface}})
			return
		}
		e := st.SymValue(errorType, "pferr", *st.nextRg).(*IfaceV)
		cont(st, fr, &TupleV{Elems: []Value{FreshVar("pf", SF64), e}})
	}
	intrinsics["strconv.FormatInt"] = strRes
	intrinsics["strconv.FormatUint"] = strRes
	intrinsics["encoding/hex.EncodeToString"] = func(ex *Exec, fr *Frame, in ssa.Instruction, fn *ssa.Function, args []Value, st *State, cont callCont) {
		// opaque: a string determined by the bytes; modelled by a fresh string of length 2*len
		s := args[0].(*SliceV)
		r := FreshVar("hexstr", BV(64))
		st.Assume(Eq(App("str_len", BV(64), r), BVBin("bvshl", s.Len, BVc(1, 64))))
		cont(st, fr, r)
	}
	intrinsics["strings.TrimPrefix"] = func(ex *Exec, fr *Frame, in ssa.Instruction, fn *ssa.Function, args []Value, st *State, cont callCont) {
		s := args[0].(*Term)
		r := FreshVar("trimmed", BV(64))
		// the result is s itself or s without the prefix: its length is len(s) or len(s) - len(prefix)
		rl := App("str_len", BV(64), r)
		sl := ex.eng.strLen(s)
		alts := []*Term{Eq(rl, sl)}
		if p, ok := args[1].(*Term); ok {
			pl := ex.eng.strLen(p)
			alts = append(alts, And(BVCmp("bvule", pl, sl), Eq(rl, BVBin("bvsub", sl, pl))))
		}
		st.Assume(BVCmp("bvule", rl, sl))
		st.Assume(Or(alts...))
		cont(st, fr, r)
	}
	intrinsics["encoding/hex.DecodeString"] = func(ex *Exec, fr *Frame, in ssa.Instruction, fn *ssa.Function, args []Value, st *State, cont callCont) {
		// returns (fresh slice, err): totality of the stdlib decoder is assumed
		str := args[0].(*Term)
		base := st.FreshRegion()
		n := FreshVar("hexlen", BV(64))
		st.Assume(BVCmp("bvule", n, ex.eng.strLen(str)))
		e := st.SymValue(errorType, "hexerr", *st.nextRg).(*IfaceV)
		// on success every pair of hex digits gave one byte (documented behaviour of encoding/hex: odd lengths and
		// non-hex characters are errors)
		st.Assume(Implies(Eq(e.Tag, BVc(0, 32)), Eq(BVBin("bvshl", n, BVc(1, 64)), ex.eng.strLen(str))))
		res := &TupleV{Elems: []Value{&SliceV{Base: base, Off: BVc(0, 64), Len: n, Cap: n}, e}}
		// content unknown: havoc the fresh region lazily by reading through an unknown array is not
		// possible (fresh regions read as zero), so store symbolic bytes up to a small bound only when needed
		ex.havocFreshBytes(st, base, n)
		cont(st, fr, res)
	}
	// RFC 3394 key wrap (third-party): total; the result is an unknown fresh byte string or an error. Nothing
	// about the wrapped bytes (in particular not that Unwrap inverts Wrap) is assumed.
	keywrapFn := func(ex *Exec, fr *Frame, in ssa.Instruction, fn *ssa.Function, args []Value, st *State, cont callCont) {
		base := st.FreshRegion()
		n := FreshVar("wraplen", BV(64))
		st.Assume(BVCmp("bvule", n, BVc(1<<20, 64)))
		e := st.SymValue(errorType, "wraperr", *st.nextRg).(*IfaceV)
		res := &TupleV{Elems: []Value{&SliceV{Base: base, Off: BVc(0, 64), Len: n, Cap: n}, e}}
		ex.havocFreshBytes(st, base, n)
		ex.intrUsed["go-aes-key-wrap Wrap/Unwrap (total; result bytes unknown, inverse relation NOT assumed)"] = true
		cont(st, fr, res)
	}
	intrinsics["github.com/NickBall/go-aes-key-wrap.Wrap"] = keywrapFn
	intrinsics["github.com/NickBall/go-aes-key-wrap.Unwrap"] = keywrapFn
	intrinsics["sort.Ints"] = func(ex *Exec, fr *Frame, in ssa.Instruction, fn *ssa.Function, args []Value, st *State, cont callCont) {
		// in-place permutation: the elements become unknown (that they are a sorted permutation of the
		// old ones is not modelled; nothing proved so far depends on it)
		x := args[0].(*SliceV)
		ex.checkFrameRange(st, in, x, x.Len)
		old := st.Clone()
		ex.havocRange(st, types.Typ[types.Int], x)
		// every element afterwards is an element from before (new[k] == old[perm(k)] for an unknown index
		// function perm), and the result is ascending. That perm is a bijection is not modelled.
		sortCounter++
		k := BoundVar(fmt.Sprintf("k$sort%d", sortCounter), BV(64))
		k2 := BoundVar(fmt.Sprintf("j$sort%d", sortCounter), BV(64))
		perm := App(fmt.Sprintf("sortperm%d", sortCounter), BV(64), k)
		newE := st.loadScalar(BV(64), x.ElemAddr(k))
		newE2 := st.loadScalar(BV(64), x.ElemAddr(k2))
		oldE := old.loadScalar(BV(64), x.ElemAddr(perm))
		st.Assume(ForallPat([]*Term{k}, Implies(BVCmp("bvult", k, x.Len), And(BVCmp("bvult", perm, x.Len), Eq(newE, oldE))), newE))
		st.Assume(Forall([]*Term{k, k2}, Implies(And(BVCmp("bvult", k, k2), BVCmp("bvult", k2, x.Len)), BVCmp("bvsle", newE, newE2))))
		ex.intrUsed["sort.Ints (result: ascending, every element is one of the old elements; bijection not modelled)"] = true
		cont(st, fr, nil)
	}
	intrinsics["bytes.TrimPrefix"] = func(ex *Exec, fr *Frame, in ssa.Instruction, fn *ssa.Function, args []Value, st *State, cont callCont) {
		// the result is s itself or s without its first len(prefix) bytes
		s, pre := args[0].(*SliceV), args[1].(*SliceV)
		cut := FreshVar("trimmed", SBool)
		k := Ite(And(cut, BVCmp("bvule", pre.Len, s.Len)), pre.Len, BVc(0, 64))
		cont(st, fr, &SliceV{Base: s.Base, Off: BVBin("bvadd", s.Off, k), Len: BVBin("bvsub", s.Len, k), Cap: BVBin("bvsub", s.Cap, k)})
	}
	intrinsics["encoding/hex.Decode"] = func(ex *Exec, fr *Frame, in ssa.Instruction, fn *ssa.Function, args []Value, st *State, cont callCont) {
		// hex.Decode(dst, src) writes len(src)/2 bytes into dst WITHOUT checking its length (the stdlib
		// documents that it expects dst to be large enough): an index panic otherwise
		dst, src := args[0].(*SliceV), args[1].(*SliceV)
		n := BVBin("bvlshr", src.Len, BVc(1, 64))
		if in != nil {
			ex.safe(st, in, "index", BVCmp("bvule", n, dst.Len))
		}
		k := FreshVar("hexn", BV(64))
		st.Assume(BVCmp("bvule", k, n))
		e := st.SymValue(errorType, "hexerr", *st.nextRg).(*IfaceV)
		ex.checkFrameRange(st, in, dst, n)
		ex.havocRange(st, types.Typ[types.Uint8], &SliceV{Base: dst.Base, Off: dst.Off, Len: n, Cap: n})
		cont(st, fr, &TupleV{Elems: []Value{k, e}})
	}
	intrinsics["(*encoding/base64.Encoding).DecodeString"] = func(ex *Exec, fr *Frame, in ssa.Instruction, fn *ssa.Function, args []Value, st *State, cont callCont) {
		str := args[1].(*Term)
		base := st.FreshRegion()
		n := FreshVar("b64len", BV(64))
		st.Assume(BVCmp("bvule", n, ex.eng.strLen(str)))
		e := st.SymValue(errorType, "b64err", *st.nextRg).(*IfaceV)
		ex.havocFreshBytes(st, base, n)
		cont(st, fr, &TupleV{Elems: []Value{&SliceV{Base: base, Off: BVc(0, 64), Len: n, Cap: n}, e}})
	}
	intrinsics["(*encoding/base64.Encoding).EncodeToString"] = func(ex *Exec, fr *Frame, in ssa.Instruction, fn *ssa.Function, args []Value, st *State, cont callCont) {
		cont(st, fr, FreshVar("b64str", BV(64)))
	}
	// verification intrinsics used by lemma functions (package-local helpers, matched by suffix in callFunction)
}

// ---------- builtins ----------

func (ex *Exec) builtin(fr *Frame, in ssa.Instruction, c *ssa.CallCommon, b *ssa.Builtin, args []Value, st *State, cont callCont) {
	switch b.Name() {
	case "len":
		switch v := args[0].(type) {
		case *SliceV:
			cont(st, fr, v.Len)
		case *Term:
			t := c.Args[0].Type()
			if isString(t) {
				cont(st, fr, ex.eng.strLen(v))
			} else if _, ok := t.Underlying().(*types.Map); ok {
				cont(st, fr, Ite(Eq(Rg(v), IntConst(0)), BVc(0, 64), st.loadScalar(BV(64), mapLenAddr(v))))
			} else {
				panic(abortPath{"len of " + t.String()})
			}
		default:
			panic(abortPath{"len"})
		}
	case "cap":
		cont(st, fr, args[0].(*SliceV).Cap)
	case "append":
		ex.doAppend(fr, in, c, args, st, cont)
	case "copy":
		dst := args[0].(*SliceV)
		var src *SliceV
		if s, ok := args[1].(*SliceV); ok {
			src = s
		} else {
			// copy(dst, string)
			src = ex.convert(args[1], c.Args[1].Type(), types.NewSlice(types.Typ[types.Uint8]), st).(*SliceV)
		}
		n := Ite(BVCmp("bvult", dst.Len, src.Len), dst.Len, src.Len)
		et := c.Args[0].Type().Underlying().(*types.Slice).Elem()
		// copy that fills a fresh (all-zero) local byte buffer completely: its content is src's
		var newSegs []Seg
		var trackID int64
		track := false
		if bt, ok := et.Underlying().(*types.Basic); ok && bt.Kind() == types.Uint8 {
			if id, segs, ok := st.trackedWhole(dst); ok && len(segs) == 1 && segs[0].Zero != nil && st.sameLen(dst.Len, src.Len) {
				newSegs = append([]Seg{}, st.segsOf(src)...)
				trackID, track = id, true
				n = dst.Len
			}
		}
		if traceOn {
			_, sg, ok := st.trackedWhole(dst)
			fmt.Printf("COPYTRACK track=%v whole=%v nsegs=%d sameLen=%v dst.Len=%s src.Len=%s\n", track, ok, len(sg), st.sameLen(dst.Len, src.Len), st.resolveLen(dst.Len).SMT(), st.resolveLen(src.Len).SMT())
		}
		keepLen := st.regionLen[trackID]
		ex.bulkCopy(st, in, et, dst, src, n, "copy")
		if track {
			st.setRegionSeq(trackID, newSegs)
			st.setRegionLen(trackID, keepLen)
		}
		cont(st, fr, n)
	case "delete":
		m := args[0].(*Term)
		mt := c.Args[0].Type().Underlying().(*types.Map)
		k := keyToBV(args[1], mt.Key())
		_, pa := mapEntry(m, k)
		old := st.loadScalar(SBool, pa)
		ex.checkFrame(st, in, pa)
		st.storeScalar(SBool, pa, False)
		la := mapLenAddr(m)
		st.storeScalar(BV(64), la, BVBin("bvsub", st.loadScalar(BV(64), la), Ite(old, BVc(1, 64), BVc(0, 64))))
		cont(st, fr, nil)
	case "print", "println":
		cont(st, fr, nil)
	case "ssa:wrapnilchk":
		p := args[0].(*Term)
		if in != nil {
			ex.safe(st, in, "nil", Neq(Rg(p), IntConst(0)))
		}
		cont(st, fr, p)
	case "min", "max":
		a, bb := args[0].(*Term), args[1].(*Term)
		t := c.Args[0].Type()
		var lt *Term
		if isSigned(t) {
			lt = BVCmp("bvslt", a, bb)
		} else {
			lt = BVCmp("bvult", a, bb)
		}
		if b.Name() == "min" {
			cont(st, fr, Ite(lt, a, bb))
		} else {
			cont(st, fr, Ite(lt, bb, a))
		}
	default:
		panic(abortPath{"builtin " + b.Name()})
	}
}

const smallCopy = 300

// bulkCopy copies n elements from src[0:] to dst[0:] with memmove semantics.
func (ex *Exec) bulkCopy(st *State, in ssa.Instruction, et types.Type, dst, src *SliceV, n *Term, why string) {
	nc := Subst(n, st.substMap())
	if nc.IsConst() && nc.Val.Int64() == 0 {
		return
	}
	// a write into a byte region whose content is tracked as segments invalidates the tracking
	// (callers that know the new content set it again afterwards)
	if len(st.regionSeq) > 0 {
		if bt, ok := et.Underlying().(*types.Basic); ok && bt.Kind() == types.Uint8 {
			if r := Subst(Rg(dst.Base), st.substMap()); r.IsConst() && r.Val.IsInt64() {
				if _, tracked := st.regionSeq[r.Val.Int64()]; tracked {
					st.setRegionSeq(r.Val.Int64(), nil)
					st.setRegionLen(r.Val.Int64(), nil)
				}
			} else {
				if traceOn {
					fmt.Printf("SEGLOST bulk copy (%s) to symbolic region %s\n", why, Rg(dst.Base).SMT())
				}
				st.regionSeq = nil
				st.regionLen = nil
			}
		}
	}
	if nc.IsConst() {
		k := nc.Val.Int64()
		if k == 0 {
			return
		}
		if k <= smallCopy {
			vals := make([]Value, k)
			for i := int64(0); i < k; i++ {
				vals[i] = st.Load(et, src.ElemAddr(BVc(i, 64)))
			}
			if in != nil {
				ex.checkFrameRange(st, in, dst, nc)
			}
			for i := int64(0); i < k; i++ {
				st.StoreVal(et, dst.ElemAddr(BVc(i, 64)), vals[i])
			}
			return
		}
	}
	if kindOf(et) != KScalar {
		rg := Subst(Rg(dst.Base), st.substMap())
		if why == "append-grow" && rg.IsConst() && rg.Val.Sign() > 0 {
			ex.bulkCopyCompositeFresh(st, et, dst, src, n)
			return
		}
		panic(abortPath{"bulk copy of composite elements with symbolic length (" + why + ")"})
	}
	if in != nil {
		ex.checkFrameRange(st, in, dst, n)
	}
	srt := scalarSort(et)
	oldArr := st.mem.arr(srt, st.memGen)
	newArr := FreshVar("mem_c", oldArr.Sort)
	st.mem.arrs[srt] = newArr
	RegisterArrayFrame(newArr, oldArr, Rg(dst.Base))
	a := BoundVar("a$c", SAddr)
	d := &SliceV{Base: dst.Base, Off: dst.Off, Len: n, Cap: n}
	inr := inSliceRange(a, d)
	j := BVBin("bvsub", mk("eidx", BV(64), Pa(a)), dst.Off)
	srcAddr := ElemAddr(src.Base, BVBin("bvadd", src.Off, j))
	body := Eq(mk("select", srt, newArr, a), Ite(inr, mk("select", srt, oldArr, srcAddr), mk("select", srt, oldArr, a)))
	st.Assume(ForallPat([]*Term{a}, body, mk("select", srt, newArr, a)))
	ex.intrUsed["quantified-copy"] = true
}

func (ex *Exec) checkFrameRange(st *State, in ssa.Instruction, dst *SliceV, n *Term) {
	if st.frameCheckRange != nil {
		st.frameCheckRange(ex, st, in, dst, n)
	}
}

func (ex *Exec) doAppend(fr *Frame, in ssa.Instruction, c *ssa.CallCommon, args []Value, st *State, cont callCont) {
	s := args[0].(*SliceV)
	et := c.Args[0].Type().Underlying().(*types.Slice).Elem()
	var t *SliceV
	if x, ok := args[1].(*SliceV); ok {
		t = x
	} else {
		t = ex.convert(args[1], c.Args[1].Type(), types.NewSlice(types.Typ[types.Uint8]), st).(*SliceV)
	}
	tl := Subst(t.Len, st.substMap())
	if isZero(tl) {
		// append(s) with nothing: returns s (possibly nil)
		cont(st, fr, s)
		return
	}
	newLen := BVBin("bvadd", s.Len, t.Len)
	fits := Subst(BVCmp("bvule", newLen, s.Cap), st.substMap())
	inPlace := func(st *State, fr *Frame) {
		dst := &SliceV{Base: s.Base, Off: BVBin("bvadd", s.Off, s.Len), Len: t.Len, Cap: t.Len}
		var newSegs []Seg
		var trackID int64
		track := false
		if bt, ok := et.Underlying().(*types.Basic); ok && bt.Kind() == types.Uint8 {
			if id, segs, ok := st.trackedWhole(s); ok {
				newSegs = append(append([]Seg{}, segs...), st.segsOf(t)...)
				trackID, track = id, true
			}
		}
		ex.bulkCopy(st, in, et, dst, t, t.Len, "append-inplace")
		if track {
			st.setRegionSeq(trackID, newSegs)
			st.setRegionLen(trackID, newLen)
		}
		cont(st, fr, &SliceV{Base: s.Base, Off: s.Off, Len: newLen, Cap: s.Cap})
	}
	realloc := func(st *State, fr *Frame) {
		var segs []Seg
		isBytes := false
		if b, ok := et.Underlying().(*types.Basic); ok && b.Kind() == types.Uint8 {
			isBytes = true
			segs = append(append([]Seg{}, st.segsOf(s)...), st.segsOf(t)...)
		}
		base := st.FreshRegion()
		newID := *st.nextRg
		ncap := FreshVar("cap", BV(64))
		st.Assume(And(BVCmp("bvule", newLen, ncap), BVCmp("bvule", ncap, maxObj)))
		// copy old
		ex.bulkCopy(st, nil, et, &SliceV{Base: base, Off: BVc(0, 64), Len: s.Len, Cap: s.Len}, s, s.Len, "append-grow")
		ex.bulkCopy(st, nil, et, &SliceV{Base: base, Off: s.Len, Len: t.Len, Cap: t.Len}, t, t.Len, "append-grow")
		if isBytes {
			st.setRegionSeq(newID, segs)
			st.setRegionLen(newID, newLen)
		}
		cont(st, fr, &SliceV{Base: base, Off: BVc(0, 64), Len: newLen, Cap: ncap})
	}
	switch {
	case fits.IsTrue():
		inPlace(st, fr)
	case fits.IsFalse():
		realloc(st, fr)
	default:
		rg := Subst(Rg(s.Base), st.substMap())
		if rg.IsConst() && rg.Val.Sign() > 0 {
			// locally allocated backing store: in-place vs grown is unobservable
			// except through aliasing between local slices (assumption "local-append").
			ex.intrUsed["assume:local-append(aliasing between appends to one locally allocated slice not modelled)"] = true
			realloc(st, fr)
			return
		}
		st1 := st.Clone()
		st1.AssumeCond(fits)
		fr1 := fr.fork()
		ex.guard(func() { inPlace(st1, fr1) })
		st.AssumeCond(Not(fits))
		realloc(st, fr)
	}
}

func init() {
	_ = fmt.Sprintf
}

// contentEq: a[i] == b[i] for all i < n (byte slices)
func (ex *Exec) contentEq(st *State, a, b *SliceV, n *Term) *Term {
	return contentEqMem(st, st, a, b, n)
}

// eqBytesSegs: byte-wise equality of two byte slices (lengths compared by the caller), using the
// segment representation of locally built buffers: a buffer assembled from literal bytes and from
// pieces of other memory is compared piece by piece with the other slice; a piece that was copied
// from the very memory it is compared with is equal as soon as the offsets agree (linear
// arithmetic), otherwise its content is compared by a quantified formula.  The result is
// EQUIVALENT to byte-wise equality (usable in both polarities).
func eqBytesSegs(st *State, a, b *SliceV) (*Term, bool) {
	norm := func(x []Seg) []Seg {
		out := make([]Seg, len(x))
		sm := st.substMap()
		for i, g := range x {
			if g.Lit != nil {
				g.Lit = Subst(g.Lit, sm)
			} else if g.Zero != nil {
				g.Zero = Subst(g.Zero, sm)
			} else {
				g.Base, g.Off, g.Len = Subst(g.Base, sm), Subst(g.Off, sm), Subst(g.Len, sm)
			}
			out[i] = g
		}
		return out
	}
	sa, sb := norm(st.segsOf(a)), norm(st.segsOf(b))
	single := func(x []Seg) bool { return len(x) == 1 && x[0].Arr != nil }
	if traceOn {
		_, _, w := st.trackedWhole(a)
		fmt.Printf("EQBYTES a.rg=%s whole=%v na=%d nb=%d singleA=%v singleB=%v\n", Subst(Rg(a.Base), st.substMap()).SMT(), w, len(sa), len(sb), single(sa), single(sb))
		if single(sa) && single(sb) {
			ba := baseArrayFor(sa[0].Arr, Rg(sa[0].Base))
			if ba.Op == "store" {
				ub, ok := getRegionUB(Rg(sa[0].Base))
				fmt.Printf("   TOPSTORE addr=%s rgA=%s ub=%d ok=%v cmp=%d\n", ba.Args[1].SMT(), Rg(sa[0].Base).SMT(), ub, ok, rgCompare(ba.Args[1].Args[0], Rg(sa[0].Base)))
			}
			fmt.Printf("   baseA=%s baseB=%s sameBase=%v\n", baseArrayFor(sa[0].Arr, Rg(sa[0].Base)).Short(), baseArrayFor(sb[0].Arr, Rg(sb[0].Base)).Short(), sa[0].Base == sb[0].Base)
		}
	}
	if single(sa) && !single(sb) {
		sa, sb = sb, sa
		a, b = b, a
	}
	if !single(sb) || len(sa) == 0 || len(sa) > 64 {
		return nil, false
	}
	if single(sa) && !(sa[0].Base == sb[0].Base && baseArrayFor(sa[0].Arr, Rg(sa[0].Base)) == baseArrayFor(sb[0].Arr, Rg(sb[0].Base))) {
		return nil, false
	}
	m := sb[0]
	pos := BVc(0, 64)
	var conj []*Term
	cur := st.mem.arr(BV(8), st.memGen)
	_ = cur
	for _, sg := range sa {
		switch {
		case sg.Lit != nil:
			conj = append(conj, Eq(sg.Lit, Select(m.Arr, ElemAddr(m.Base, BVBin("bvadd", m.Off, pos)))))
		case sg.Zero != nil:
			return nil, false
		default:
			other := &SliceV{Base: m.Base, Off: BVBin("bvadd", m.Off, pos), Len: sg.Len, Cap: sg.Len}
			this := &SliceV{Base: sg.Base, Off: sg.Off, Len: sg.Len, Cap: sg.Len}
			gen := contentEqArr(sg.Arr, this, m.Arr, other, sg.Len)
			if sg.Base == m.Base && baseArrayFor(sg.Arr, Rg(sg.Base)) == baseArrayFor(m.Arr, Rg(m.Base)) {
				conj = append(conj, Or(Eq(sg.Off, other.Off), gen))
			} else {
				conj = append(conj, gen)
			}
		}
		pos = BVBin("bvadd", pos, segLen(sg))
	}
	return And(conj...), true
}

// contentEqArr: n bytes of a in array arrA equal n bytes of b in array arrB (address-quantified)
func contentEqArr(arrA *Term, a *SliceV, arrB *Term, b *SliceV, n *Term) *Term {
	if n.IsConst() && n.Val.Int64() <= 64 {
		var cs []*Term
		for i := int64(0); i < n.Val.Int64(); i++ {
			cs = append(cs, Eq(Select(arrA, a.ElemAddr(BVc(i, 64))), Select(arrB, b.ElemAddr(BVc(i, 64)))))
		}
		return And(cs...)
	}
	x := BoundVar("a$eq", SAddr)
	pa := Pa(x)
	idx := BVBin("bvsub", mk("eidx", BV(64), pa), a.Off)
	in := And(Eq(Rg(x), Rg(a.Base)), mk("(_ is elem)", SBool, pa), mkEqRaw(mk("ebase", SPath, pa), Pa(a.Base)), BVCmp("bvult", idx, n))
	lhs := mk("select", BV(8), arrA, x)
	body := Implies(in, Eq(lhs, mk("select", BV(8), arrB, b.ElemAddr(idx))))
	return ForallPat([]*Term{x}, body, lhs)
}

// contentEqMem: the first n bytes of a (in state sa) equal the first n bytes of b (in state sb).
// Symbolic n: quantified over ADDRESSES inside a (pattern: any read of a's memory), which the
// solvers instantiate far more reliably than index-quantified formulas with offset arithmetic.
func contentEqMem(sa, sb *State, a, b *SliceV, n *Term) *Term {
	nc := Subst(n, sa.substMap())
	if nc.IsConst() && nc.Val.Int64() <= 64 {
		var cs []*Term
		for i := int64(0); i < nc.Val.Int64(); i++ {
			cs = append(cs, Eq(sa.loadScalar(BV(8), a.ElemAddr(BVc(i, 64))), sb.loadScalar(BV(8), b.ElemAddr(BVc(i, 64)))))
		}
		return And(cs...)
	}
	x := BoundVar("a$eq", SAddr)
	arrA := sa.mem.arr(BV(8), sa.memGen)
	arrB := sb.mem.arr(BV(8), sb.memGen)
	pa := Pa(x)
	idx := BVBin("bvsub", mk("eidx", BV(64), pa), a.Off)
	in := And(Eq(Rg(x), Rg(a.Base)), mk("(_ is elem)", SBool, pa), mkEqRaw(mk("ebase", SPath, pa), Pa(a.Base)), BVCmp("bvult", idx, n))
	lhs := mk("select", BV(8), arrA, x)
	body := Implies(in, Eq(lhs, mk("select", BV(8), arrB, b.ElemAddr(idx))))
	return ForallPat([]*Term{x}, body, lhs)
}

// havocFreshBytes: the content of a freshly allocated byte region is unknown (e.g. decoder output).
func (ex *Exec) havocFreshBytes(st *State, base *Term, n *Term) {
	srt := BV(8)
	oldArr := st.mem.arr(srt, st.memGen)
	newArr := FreshVar("mem_h", oldArr.Sort)
	st.mem.arrs[srt] = newArr
	RegisterArrayFrame(newArr, oldArr, Rg(base))
	a := BoundVar("a$hb", SAddr)
	st.Assume(Forall([]*Term{a}, Implies(Not(Eq(Rg(a), Rg(base))), Eq(mk("select", srt, newArr, a), mk("select", srt, oldArr, a)))))
}

// bulkCopyCompositeFresh: copy n composite elements into a freshly allocated region:
// per scalar leaf of the element type, forall j < n. M'[dst_j.leaf] = M[src_j.leaf];
// everything outside the fresh region is unchanged.
func (ex *Exec) bulkCopyCompositeFresh(st *State, et types.Type, dst, src *SliceV, n *Term) {
	type leaf struct {
		srt  Sort
		path func(a *Term) *Term
	}
	j := BoundVar("j$cc", BV(64))
	dj := dst.ElemAddr(j)
	sj := src.ElemAddr(j)
	bySort := map[Sort][][2]*Term{}
	var dl, sl []struct {
		s Sort
		a *Term
	}
	forEachLeaf(et, dj, func(s Sort, a *Term) {
		dl = append(dl, struct {
			s Sort
			a *Term
		}{s, a})
	})
	forEachLeaf(et, sj, func(s Sort, a *Term) {
		sl = append(sl, struct {
			s Sort
			a *Term
		}{s, a})
	})
	for i := range dl {
		bySort[dl[i].s] = append(bySort[dl[i].s], [2]*Term{dl[i].a, sl[i].a})
	}
	for srt, pairs := range bySort {
		oldArr := st.mem.arr(srt, st.memGen)
		newArr := FreshVar("mem_cc", oldArr.Sort)
		st.mem.arrs[srt] = newArr
		RegisterArrayFrame(newArr, oldArr, Rg(dst.Base))
		a := BoundVar("a$cc", SAddr)
		st.Assume(ForallPat([]*Term{a}, Implies(Not(Eq(Rg(a), Rg(dst.Base))), Eq(mk("select", srt, newArr, a), mk("select", srt, oldArr, a))), mk("select", srt, newArr, a)))
		for _, pr := range pairs {
			st.Assume(ForallPat([]*Term{j}, Implies(BVCmp("bvult", j, n), Eq(mk("select", srt, newArr, pr[0]), mk("select", srt, oldArr, pr[1]))), mk("select", srt, newArr, pr[0])))
		}
	}
	ex.intrUsed["quantified-copy"] = true
}
