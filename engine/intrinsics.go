package main

import (
	"fmt"
	"go/types"

	"golang.org/x/tools/go/ssa"
)

type intrinsicFn func(ex *Exec, fr *Frame, in ssa.Instruction, fn *ssa.Function, args []Value, st *State, cont callCont)
type invokeIntrinsicFn func(ex *Exec, fr *Frame, in ssa.Instruction, iv *IfaceV, args []Value, st *State, cont callCont)

var intrinsics = map[string]intrinsicFn{}
var invokeIntrinsics = map[string]invokeIntrinsicFn{}

var errorType = types.Universe.Lookup("error").Type()

// a fresh non-nil error value
func (ex *Exec) newError(st *State) *IfaceV {
	return &IfaceV{Tag: ex.eng.errTag(), Data: st.FreshRegion()}
}

func init() {
	newErr := func(ex *Exec, fr *Frame, in ssa.Instruction, fn *ssa.Function, args []Value, st *State, cont callCont) {
		cont(st, fr, ex.newError(st))
	}
	for _, n := range []string{"errors.New", "fmt.Errorf", "github.com/pkg/errors.New", "github.com/pkg/errors.Errorf"} {
		intrinsics[n] = newErr
	}
	wrap := func(ex *Exec, fr *Frame, in ssa.Instruction, fn *ssa.Function, args []Value, st *State, cont callCont) {
		e := args[0].(*IfaceV)
		isNil := Eq(e.Tag, BVc(0, 32))
		ne := ex.newError(st)
		cont(st, fr, IteValue(isNil, NilIface, ne))
	}
	intrinsics["github.com/pkg/errors.Wrap"] = wrap
	intrinsics["github.com/pkg/errors.Wrapf"] = wrap
	intrinsics["github.com/pkg/errors.WithStack"] = wrap
	intrinsics["github.com/pkg/errors.Cause"] = func(ex *Exec, fr *Frame, in ssa.Instruction, fn *ssa.Function, args []Value, st *State, cont callCont) {
		// Cause(nil) == nil; Cause(non-nil) is some non-nil error
		e := args[0].(*IfaceV)
		isNil := Eq(e.Tag, BVc(0, 32))
		r := st.SymValue(errorType, "cause", *st.nextRg).(*IfaceV)
		st.Assume(Implies(Not(isNil), Neq(r.Tag, BVc(0, 32))))
		cont(st, fr, IteValue(isNil, NilIface, r))
	}
	strRes := func(ex *Exec, fr *Frame, in ssa.Instruction, fn *ssa.Function, args []Value, st *State, cont callCont) {
		cont(st, fr, FreshVar("str", BV(64)))
	}
	intrinsics["fmt.Sprintf"] = strRes
	intrinsics["fmt.Sprint"] = strRes
	intrinsics["strconv.Itoa"] = strRes
	invokeIntrinsics["(error).Error"] = func(ex *Exec, fr *Frame, in ssa.Instruction, iv *IfaceV, args []Value, st *State, cont callCont) {
		cont(st, fr, FreshVar("str", BV(64)))
	}
	noop := func(ex *Exec, fr *Frame, in ssa.Instruction, fn *ssa.Function, args []Value, st *State, cont callCont) {
		cont(st, fr, nil)
	}
	for _, n := range []string{"(*sync.RWMutex).Lock", "(*sync.RWMutex).Unlock", "(*sync.RWMutex).RLock", "(*sync.RWMutex).RUnlock",
		"(*sync.Mutex).Lock", "(*sync.Mutex).Unlock", "fmt.Println", "fmt.Printf"} {
		intrinsics[n] = noop
	}
	intrinsics["bytes.Equal"] = func(ex *Exec, fr *Frame, in ssa.Instruction, fn *ssa.Function, args []Value, st *State, cont callCont) {
		a, b := args[0].(*SliceV), args[1].(*SliceV)
		cont(st, fr, And(Eq(a.Len, b.Len), ex.contentEq(st, a, b, a.Len)))
	}
	intrinsics["strconv.FormatInt"] = strRes
	intrinsics["strconv.FormatUint"] = strRes
	intrinsics["encoding/hex.EncodeToString"] = func(ex *Exec, fr *Frame, in ssa.Instruction, fn *ssa.Function, args []Value, st *State, cont callCont) {
		// opaque: a string determined by the bytes; modelled by a fresh string of length 2*len
		s := args[0].(*SliceV)
		r := FreshVar("hexstr", BV(64))
		st.Assume(Eq(App("str_len", BV(64), r), BVBin("bvshl", s.Len, BVc(1, 64))))
		cont(st, fr, r)
	}
	intrinsics["strings.TrimPrefix"] = func(ex *Exec, fr *Frame, in ssa.Instruction, fn *ssa.Function, args []Value, st *State, cont callCont) {
		s := args[0].(*Term)
		r := FreshVar("trimmed", BV(64))
		st.Assume(BVCmp("bvule", App("str_len", BV(64), r), ex.eng.strLen(s)))
		cont(st, fr, r)
	}
	intrinsics["encoding/hex.DecodeString"] = func(ex *Exec, fr *Frame, in ssa.Instruction, fn *ssa.Function, args []Value, st *State, cont callCont) {
		// returns (fresh slice, err): totality of the stdlib decoder is assumed
		str := args[0].(*Term)
		base := st.FreshRegion()
		n := FreshVar("hexlen", BV(64))
		st.Assume(BVCmp("bvule", n, ex.eng.strLen(str)))
		e := st.SymValue(errorType, "hexerr", *st.nextRg).(*IfaceV)
		res := &TupleV{Elems: []Value{&SliceV{Base: base, Off: BVc(0, 64), Len: n, Cap: n}, e}}
		// content unknown: havoc the fresh region lazily by reading through an unknown array is not
		// possible (fresh regions read as zero), so store symbolic bytes up to a small bound only when needed
		ex.havocFreshBytes(st, base, n)
		cont(st, fr, res)
	}
	intrinsics["(*encoding/base64.Encoding).DecodeString"] = func(ex *Exec, fr *Frame, in ssa.Instruction, fn *ssa.Function, args []Value, st *State, cont callCont) {
		str := args[1].(*Term)
		base := st.FreshRegion()
		n := FreshVar("b64len", BV(64))
		st.Assume(BVCmp("bvule", n, ex.eng.strLen(str)))
		e := st.SymValue(errorType, "b64err", *st.nextRg).(*IfaceV)
		ex.havocFreshBytes(st, base, n)
		cont(st, fr, &TupleV{Elems: []Value{&SliceV{Base: base, Off: BVc(0, 64), Len: n, Cap: n}, e}})
	}
	intrinsics["(*encoding/base64.Encoding).EncodeToString"] = func(ex *Exec, fr *Frame, in ssa.Instruction, fn *ssa.Function, args []Value, st *State, cont callCont) {
		cont(st, fr, FreshVar("b64str", BV(64)))
	}
	// verification intrinsics used by lemma functions (package-local helpers, matched by suffix in callFunction)
}

// ---------- builtins ----------

func (ex *Exec) builtin(fr *Frame, in ssa.Instruction, c *ssa.CallCommon, b *ssa.Builtin, args []Value, st *State, cont callCont) {
	switch b.Name() {
	case "len":
		switch v := args[0].(type) {
		case *SliceV:
			cont(st, fr, v.Len)
		case *Term:
			t := c.Args[0].Type()
			if isString(t) {
				cont(st, fr, ex.eng.strLen(v))
			} else if _, ok := t.Underlying().(*types.Map); ok {
				cont(st, fr, Ite(Eq(Rg(v), IntConst(0)), BVc(0, 64), st.loadScalar(BV(64), mapLenAddr(v))))
			} else {
				panic(abortPath{"len of " + t.String()})
			}
		default:
			panic(abortPath{"len"})
		}
	case "cap":
		cont(st, fr, args[0].(*SliceV).Cap)
	case "append":
		ex.doAppend(fr, in, c, args, st, cont)
	case "copy":
		dst := args[0].(*SliceV)
		var src *SliceV
		if s, ok := args[1].(*SliceV); ok {
			src = s
		} else {
			// copy(dst, string)
			src = ex.convert(args[1], c.Args[1].Type(), types.NewSlice(types.Typ[types.Uint8]), st).(*SliceV)
		}
		n := Ite(BVCmp("bvult", dst.Len, src.Len), dst.Len, src.Len)
		et := c.Args[0].Type().Underlying().(*types.Slice).Elem()
		ex.bulkCopy(st, in, et, dst, src, n, "copy")
		cont(st, fr, n)
	case "delete":
		m := args[0].(*Term)
		mt := c.Args[0].Type().Underlying().(*types.Map)
		k := keyToBV(args[1], mt.Key())
		_, pa := mapEntry(m, k)
		old := st.loadScalar(SBool, pa)
		ex.checkFrame(st, in, pa)
		st.storeScalar(SBool, pa, False)
		la := mapLenAddr(m)
		st.storeScalar(BV(64), la, BVBin("bvsub", st.loadScalar(BV(64), la), Ite(old, BVc(1, 64), BVc(0, 64))))
		cont(st, fr, nil)
	case "print", "println":
		cont(st, fr, nil)
	case "ssa:wrapnilchk":
		p := args[0].(*Term)
		if in != nil {
			ex.safe(st, in, "nil", Neq(Rg(p), IntConst(0)))
		}
		cont(st, fr, p)
	case "min", "max":
		a, bb := args[0].(*Term), args[1].(*Term)
		t := c.Args[0].Type()
		var lt *Term
		if isSigned(t) {
			lt = BVCmp("bvslt", a, bb)
		} else {
			lt = BVCmp("bvult", a, bb)
		}
		if b.Name() == "min" {
			cont(st, fr, Ite(lt, a, bb))
		} else {
			cont(st, fr, Ite(lt, bb, a))
		}
	default:
		panic(abortPath{"builtin " + b.Name()})
	}
}

const smallCopy = 300

// bulkCopy copies n elements from src[0:] to dst[0:] with memmove semantics.
func (ex *Exec) bulkCopy(st *State, in ssa.Instruction, et types.Type, dst, src *SliceV, n *Term, why string) {
	nc := Subst(n, st.substMap())
	if nc.IsConst() {
		k := nc.Val.Int64()
		if k == 0 {
			return
		}
		if k <= smallCopy {
			vals := make([]Value, k)
			for i := int64(0); i < k; i++ {
				vals[i] = st.Load(et, src.ElemAddr(BVc(i, 64)))
			}
			if in != nil {
				ex.checkFrameRange(st, in, dst, nc)
			}
			for i := int64(0); i < k; i++ {
				st.StoreVal(et, dst.ElemAddr(BVc(i, 64)), vals[i])
			}
			return
		}
	}
	if kindOf(et) != KScalar {
		rg := Subst(Rg(dst.Base), st.substMap())
		if why == "append-grow" && rg.IsConst() && rg.Val.Sign() > 0 {
			ex.bulkCopyCompositeFresh(st, et, dst, src, n)
			return
		}
		panic(abortPath{"bulk copy of composite elements with symbolic length (" + why + ")"})
	}
	if in != nil {
		ex.checkFrameRange(st, in, dst, n)
	}
	srt := scalarSort(et)
	oldArr := st.mem.arr(srt, st.memGen)
	newArr := FreshVar("mem_c", oldArr.Sort)
	st.mem.arrs[srt] = newArr
	RegisterArrayFrame(newArr, oldArr, Rg(dst.Base))
	a := BoundVar("a$c", SAddr)
	d := &SliceV{Base: dst.Base, Off: dst.Off, Len: n, Cap: n}
	inr := inSliceRange(a, d)
	j := BVBin("bvsub", mk("eidx", BV(64), Pa(a)), dst.Off)
	srcAddr := ElemAddr(src.Base, BVBin("bvadd", src.Off, j))
	body := Eq(mk("select", srt, newArr, a), Ite(inr, mk("select", srt, oldArr, srcAddr), mk("select", srt, oldArr, a)))
	st.Assume(ForallPat([]*Term{a}, body, mk("select", srt, newArr, a)))
	ex.intrUsed["quantified-copy"] = true
}

func (ex *Exec) checkFrameRange(st *State, in ssa.Instruction, dst *SliceV, n *Term) {
	if st.frameCheckRange != nil {
		st.frameCheckRange(ex, st, in, dst, n)
	}
}

func (ex *Exec) doAppend(fr *Frame, in ssa.Instruction, c *ssa.CallCommon, args []Value, st *State, cont callCont) {
	s := args[0].(*SliceV)
	et := c.Args[0].Type().Underlying().(*types.Slice).Elem()
	var t *SliceV
	if x, ok := args[1].(*SliceV); ok {
		t = x
	} else {
		t = ex.convert(args[1], c.Args[1].Type(), types.NewSlice(types.Typ[types.Uint8]), st).(*SliceV)
	}
	tl := Subst(t.Len, st.substMap())
	if isZero(tl) {
		// append(s) with nothing: returns s (possibly nil)
		cont(st, fr, s)
		return
	}
	newLen := BVBin("bvadd", s.Len, t.Len)
	fits := Subst(BVCmp("bvule", newLen, s.Cap), st.substMap())
	inPlace := func(st *State, fr *Frame) {
		dst := &SliceV{Base: s.Base, Off: BVBin("bvadd", s.Off, s.Len), Len: t.Len, Cap: t.Len}
		ex.bulkCopy(st, in, et, dst, t, t.Len, "append-inplace")
		cont(st, fr, &SliceV{Base: s.Base, Off: s.Off, Len: newLen, Cap: s.Cap})
	}
	realloc := func(st *State, fr *Frame) {
		var segs []Seg
		isBytes := false
		if b, ok := et.Underlying().(*types.Basic); ok && b.Kind() == types.Uint8 {
			isBytes = true
			segs = append(append([]Seg{}, st.segsOf(s)...), st.segsOf(t)...)
		}
		base := st.FreshRegion()
		newID := *st.nextRg
		ncap := FreshVar("cap", BV(64))
		st.Assume(And(BVCmp("bvule", newLen, ncap), BVCmp("bvule", ncap, maxObj)))
		// copy old
		ex.bulkCopy(st, nil, et, &SliceV{Base: base, Off: BVc(0, 64), Len: s.Len, Cap: s.Len}, s, s.Len, "append-grow")
		ex.bulkCopy(st, nil, et, &SliceV{Base: base, Off: s.Len, Len: t.Len, Cap: t.Len}, t, t.Len, "append-grow")
		if isBytes {
			st.setRegionSeq(newID, segs)
		}
		cont(st, fr, &SliceV{Base: base, Off: BVc(0, 64), Len: newLen, Cap: ncap})
	}
	switch {
	case fits.IsTrue():
		inPlace(st, fr)
	case fits.IsFalse():
		realloc(st, fr)
	default:
		rg := Subst(Rg(s.Base), st.substMap())
		if rg.IsConst() && rg.Val.Sign() > 0 {
			// locally allocated backing store: in-place vs grown is unobservable
			// except through aliasing between local slices (assumption "local-append").
			ex.intrUsed["assume:local-append(aliasing between appends to one locally allocated slice not modelled)"] = true
			realloc(st, fr)
			return
		}
		st1 := st.Clone()
		st1.AssumeCond(fits)
		fr1 := fr.fork()
		ex.guard(func() { inPlace(st1, fr1) })
		st.AssumeCond(Not(fits))
		realloc(st, fr)
	}
}

func init() {
	_ = fmt.Sprintf
}

// contentEq: a[i] == b[i] for all i < n (byte slices)
func (ex *Exec) contentEq(st *State, a, b *SliceV, n *Term) *Term {
	nc := Subst(n, st.substMap())
	if nc.IsConst() && nc.Val.Int64() <= 64 {
		var cs []*Term
		for i := int64(0); i < nc.Val.Int64(); i++ {
			cs = append(cs, Eq(st.loadScalar(BV(8), a.ElemAddr(BVc(i, 64))), st.loadScalar(BV(8), b.ElemAddr(BVc(i, 64)))))
		}
		return And(cs...)
	}
	i := BoundVar("i$eq", BV(64))
	arr := st.mem.arr(BV(8), st.memGen)
	body := Implies(BVCmp("bvult", i, n), Eq(mk("select", BV(8), arr, a.ElemAddr(i)), mk("select", BV(8), arr, b.ElemAddr(i))))
	return Forall([]*Term{i}, body)
}

// havocFreshBytes: the content of a freshly allocated byte region is unknown (e.g. decoder output).
func (ex *Exec) havocFreshBytes(st *State, base *Term, n *Term) {
	srt := BV(8)
	oldArr := st.mem.arr(srt, st.memGen)
	newArr := FreshVar("mem_h", oldArr.Sort)
	st.mem.arrs[srt] = newArr
	RegisterArrayFrame(newArr, oldArr, Rg(base))
	a := BoundVar("a$hb", SAddr)
	st.Assume(Forall([]*Term{a}, Implies(Not(Eq(Rg(a), Rg(base))), Eq(mk("select", srt, newArr, a), mk("select", srt, oldArr, a)))))
}

// bulkCopyCompositeFresh: copy n composite elements into a freshly allocated region:
// per scalar leaf of the element type, forall j < n. M'[dst_j.leaf] = M[src_j.leaf];
// everything outside the fresh region is unchanged.
func (ex *Exec) bulkCopyCompositeFresh(st *State, et types.Type, dst, src *SliceV, n *Term) {
	type leaf struct {
		srt  Sort
		path func(a *Term) *Term
	}
	j := BoundVar("j$cc", BV(64))
	dj := dst.ElemAddr(j)
	sj := src.ElemAddr(j)
	bySort := map[Sort][][2]*Term{}
	var dl, sl []struct {
		s Sort
		a *Term
	}
	forEachLeaf(et, dj, func(s Sort, a *Term) {
		dl = append(dl, struct {
			s Sort
			a *Term
		}{s, a})
	})
	forEachLeaf(et, sj, func(s Sort, a *Term) {
		sl = append(sl, struct {
			s Sort
			a *Term
		}{s, a})
	})
	for i := range dl {
		bySort[dl[i].s] = append(bySort[dl[i].s], [2]*Term{dl[i].a, sl[i].a})
	}
	for srt, pairs := range bySort {
		oldArr := st.mem.arr(srt, st.memGen)
		newArr := FreshVar("mem_cc", oldArr.Sort)
		st.mem.arrs[srt] = newArr
		RegisterArrayFrame(newArr, oldArr, Rg(dst.Base))
		a := BoundVar("a$cc", SAddr)
		st.Assume(ForallPat([]*Term{a}, Implies(Not(Eq(Rg(a), Rg(dst.Base))), Eq(mk("select", srt, newArr, a), mk("select", srt, oldArr, a))), mk("select", srt, newArr, a)))
		for _, pr := range pairs {
			st.Assume(ForallPat([]*Term{j}, Implies(BVCmp("bvult", j, n), Eq(mk("select", srt, newArr, pr[0]), mk("select", srt, oldArr, pr[1]))), mk("select", srt, newArr, pr[0])))
		}
	}
	ex.intrUsed["quantified-copy"] = true
}
