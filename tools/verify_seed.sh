#!/bin/bash
# usage: verify_seed.sh <id> <srcdir>   - confirms a seeded change against /repo HEAD in a scratch worktree
# (suite passes with change; demo fails with change, passes without) and records it under /verif/seeded/<id>/
set -u
export GOFLAGS=-mod=mod GOPROXY=off GOSUMDB=off GOTOOLCHAIN=local
id=$1; src=$2
wt=$(mktemp -d /tmp/seedverify.XXXX)/wt
git -C /repo worktree add -q --detach "$wt" HEAD || exit 2
pkgdir=$(python3 -c "import json;print(json.load(open('$src/meta.json'))['demo_pkg_dir'])")
res="id=$id"
cd "$wt"
cp "$src/demo_test.go" "$wt/$pkgdir/zz_seed_demo_test.go"
if (cd "$wt/$pkgdir" && go test -vet=off -count=1 -run 'TestSeedDemo' . >/tmp/seedverify.$id.pristine 2>&1); then res="$res demo_pristine=pass"; else res="$res demo_pristine=FAIL"; fi
if git apply "$src/patch.diff" 2>/tmp/seedverify.$id.apply; then res="$res apply=ok"; else res="$res apply=FAIL"; fi
if go build ./... >/dev/null 2>&1; then res="$res build=ok"; else res="$res build=FAIL"; fi
if (cd "$wt/$pkgdir" && go test -vet=off -count=1 -run 'TestSeedDemo' . >/tmp/seedverify.$id.mutant 2>&1); then res="$res demo_mutant=PASS(bad)"; else res="$res demo_mutant=fail(good)"; fi
rm "$wt/$pkgdir/zz_seed_demo_test.go"
go test -vet=off -count=1 ./... > /tmp/seedverify.$id.suite 2>&1
fails=$(grep -c '^--- FAIL' /tmp/seedverify.$id.suite)
onlyasync=$(grep '^--- FAIL' /tmp/seedverify.$id.suite | grep -vc TestAsyncClient)
res="$res suite_fail_lines=$fails other_than_async=$onlyasync"
cd /
git -C /repo worktree remove --force "$wt"; rm -rf "$(dirname $wt)"
echo "$res"
if echo "$res" | grep -q "demo_pristine=pass apply=ok build=ok demo_mutant=fail(good)" && [ "$onlyasync" = "0" ]; then
  mkdir -p /verif/seeded/$id
  cp "$src/patch.diff" "$src/demo_test.go" /verif/seeded/$id/
  python3 - <<PY
import json
m=json.load(open('$src/meta.json'))
out={"property":m.get("property","$id"),"breaks":m.get("summary"),"needs_to_manifest":m.get("needs_to_manifest"),"why_tests_pass":m.get("why_tests_pass"),
 "demo_pkg_dir":m.get("demo_pkg_dir"),"confirmed_by":"tools/verify_seed.sh on a scratch worktree of /repo HEAD: go build ok; full suite passes with the change (only backend TestAsyncClient fails, as on the pinned tree); demo test fails with the change and passes without it",
 "result":"$res"}
json.dump(out,open('/verif/seeded/$id/meta.json','w'),indent=1)
PY
fi
