#!/usr/bin/env python3
"""Regenerates /verif/MANIFEST.json from tools/claims.json (claimed checks) and properties.jsonl."""
import json, subprocess, os
V='/verif'
props=[json.loads(l) for l in open(f'{V}/properties.jsonl')]
claims=json.load(open(f'{V}/tools/claims.json'))
commits=subprocess.run(['git','-C','/repo','log','--format=%H %s'],capture_output=True,text=True).stdout.strip().split('\n')
hook_commits=[c.split()[0] for c in commits if ' verif hook' in c]
GOENV='GOFLAGS=-mod=mod GOPROXY=off GOSUMDB=off GOTOOLCHAIN=local'
m={"version":1,
 "setup_cmd":f"cd /verif/engine && {GOENV} go build -o /verif/bin/gov . && cd /verif && bin/gov version",
 "hooks":{"guard":"verif","enable":"go build -tags verif ./... (gov loads /repo with -tags=verif; the guarded files contain contract comments and lemma functions only)",
          "baseline_off_cmd":f"cd /repo && {GOENV} go test -vet=off -count=1 ./...","source_commits":hook_commits,"add_only":True},
 "engines":[{"name":"gov","path":"/verif/engine","serves_properties":sorted(claims['checks'].keys()),
   "kind_free_text":"contract-based deductive verifier for Go written for this task: symbolic execution of go/ssa against //@ contracts, VCs in SMT-LIB discharged by z3 5.1 / cvc5 1.0 / z3 4.8"}],
 "checks":[], "notes":claims.get('notes',''), "not_applicable":[]}
for p in props:
    i=p['id']
    if i in claims['checks']:
        c=claims['checks'][i]
        m['checks'].append({"property_id":i,
          "quick_cmd":f"bin/gov check -p {i} -tier quick",
          "thorough_cmd":f"bin/gov check -p {i} -tier thorough",
          "evidence_file":f"/verif/evidence/{i}.json",
          "replay_cmd_template":"bin/gov replay {path}",
          "engine":"gov",
          "level_claimed":{"category":"proof","text":c['text'],"design_ref":c.get('design_ref','DESIGN.md §9 '+i)},
          "level_note":c['note'],
          "technique":c.get('technique',"contract-based deductive verification: weakest-precondition style VCs over go/ssa of the real code against //@ contracts, discharged by SMT (z3/cvc5)")})
    else:
        m['not_applicable'].append({"property_id":i,"reason":claims['not_applicable'].get(i,"check not built yet (engine under construction)")})
json.dump(m,open(f'{V}/MANIFEST.json','w'),indent=1)
print(len(m['checks']),'checks',len(m['not_applicable']),'n/a')
