#!/bin/bash
# runs every seeded change against the check of its own property (id without the round suffix; C05 also against C02);
# prints one line per seed.  usage: sweep_seeds.sh [seed-id ...]   (default: all)
cd /verif
ids="$@"; [ -z "$ids" ] && ids=$(ls seeded)
for id in $ids; do
  prop=$(echo $id | sed -E 's/^(C[0-9]+).*/\1/')
  props=$prop
  [ "$id" = C05 ] && props="C05 C02"
  out=$(tools/try_seed.sh $id $props 2>&1)
  if echo "$out" | grep -Eq "^VIOLATION|, [1-9][0-9]* violations"; then
     conf=$(echo "$out" | grep "^VIOLATION" | grep -vc "no-failing-input-found")
     echo "$id: DETECTED ($(echo "$out" | grep -o '[0-9]* violations' | tr '\n' ' '); $conf of the shown VIOLATION lines with confirmed replay)"
  else
     echo "$id: NOT detected :: $(echo "$out" | tail -1)"
  fi
done
git -C /repo status --short
