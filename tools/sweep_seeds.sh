#!/bin/bash
# runs every seeded change against the check of its own property (and C05 also against C02); prints one line per seed
cd /verif
for d in seeded/C*; do
  id=$(basename $d)
  props=$id
  [ "$id" = C05 ] && props="C05 C02"
  if ! python3 -c "import json,sys; sys.exit(0 if any(c['property_id']=='$id' for c in json.load(open('/verif/MANIFEST.json'))['checks']) else 1)"; then echo "$id: no check registered"; continue; fi
  out=$(tools/try_seed.sh $id $props 2>&1)
  if echo "$out" | grep -Eq "^VIOLATION|, [1-9][0-9]* violations"; then
     conf=$(echo "$out" | grep "^VIOLATION" | grep -vc "no-failing-input-found")
     echo "$id: DETECTED ($(echo "$out" | grep -o '[0-9]* violations' | tr '\n' ' '); $conf of the shown VIOLATION lines with confirmed replay)"
  else
     echo "$id: NOT detected :: $(echo "$out" | tail -1)"
  fi
done
git -C /repo status --short
