#!/bin/bash
# usage: try_seed.sh <seed-id> <property>...   applies /verif/seeded/<id>/patch.diff to /repo (must be clean),
# runs the given checks, and reverses the patch. Never uses git checkout.
id=$1; shift
if [ -n "$(git -C /repo status --porcelain)" ]; then echo "REFUSING: /repo has uncommitted changes"; git -C /repo status --short; exit 2; fi
git -C /repo apply /verif/seeded/$id/patch.diff || { echo "patch does not apply"; exit 2; }
# evidence written while a seeded change is applied must not replace the evidence of the unchanged tree
save=$(mktemp -d /tmp/evsave.XXXXXX); cp -a /verif/evidence/. $save/
for p in "$@"; do (cd /verif && ./bin/gov check -p $p 2>&1 | grep -v "^KNOWN-FINDING" | tail -6); done
git -C /repo apply -R /verif/seeded/$id/patch.diff
cp -a $save/. /verif/evidence/; rm -rf $save
git -C /repo status --short
