#!/bin/bash
# usage: run_all.sh [tier] [extra gov flags...]   runs every registered check sequentially; prints the summary lines
tier=${1:-quick}; shift
cd /verif
for p in $(python3 -c "import json;print(' '.join(c['property_id'] for c in json.load(open('/verif/MANIFEST.json'))['checks']))"); do
  bin/gov check -p $p -tier $tier "$@" 2>&1 | grep -E "^(VIOLATION|property|ENGINE)|^  (failed|undecided)" 
done
