#!/bin/bash
# usage: run_all.sh [tier] [extra gov flags...]   runs every registered check sequentially; prints the summary lines
# and, last, one line "SWEEP ok" or "SWEEP ALARM: <ids>" -- read it before committing baselines or evidence
tier=${1:-quick}; shift
cd /verif
bad=""
for p in $(python3 -c "import json;print(' '.join(c['property_id'] for c in json.load(open('/verif/MANIFEST.json'))['checks']))"); do
  out=$(bin/gov check -p $p -tier $tier "$@" 2>&1); rc=$?
  echo "$out" | grep -E "^(VIOLATION|property|ENGINE)|^  (failed|undecided)"
  [ $rc -ne 0 ] && bad="$bad $p(exit $rc)"
done
if [ -z "$bad" ]; then echo "SWEEP ok ($tier)"; else echo "SWEEP ALARM ($tier):$bad"; fi
